// Contract shim for nom 7.1.3 — the ~20 combinators squidpickles/ais uses.
//
// Same names, generic parameters and call shapes as the real crate so the repository text
// compiles unchanged against it.  Every body is `external_body`: the contract is ASSUMED by
// Verus (engine V) and CHECKED against the real nom code by the Kani harnesses in
// /verif/kani/shimval (engine K, bounded domains stated there).
//
// Compiled as its own crate:
//   verus nom.rs --crate-type=lib --crate-name=nom --export nom.vir --compile -o libnom.rlib
use vstd::prelude::*;
verus! {

#[derive(Debug)]
pub enum Needed { Unknown, Size(usize) }
#[derive(Debug)]
pub enum Err<E> { Incomplete(Needed), Error(E), Failure(E) }

pub mod error {
    use vstd::prelude::*;
    #[derive(Debug)]
    pub enum ErrorKind { Tag, MapRes, MapOpt, Alt, IsNot, IsA, SeparatedList, SeparatedNonEmptyList, Many0, Many1, ManyTill, Count, TakeUntil, LengthValue, TagClosure, Alpha, Digit, HexDigit, OctDigit, AlphaNumeric, Space, MultiSpace, LengthValueFn, Eof, Switch, TagBits, OneOf, NoneOf, Char, CrLf, RegexpMatch, RegexpMatches, RegexpFind, RegexpCapture, RegexpCaptures, TakeWhile1, Complete, Fix, Escaped, EscapedTransform, NonEmpty, ManyMN, Not, Permutation, Verify, TakeTill1, TakeWhileMN, TooLarge, Many0Count, Many1Count, Float, Satisfy, Fail }
    #[derive(Debug)]
    pub struct Error<I> { pub input: I, pub code: ErrorKind }
    impl<I> Error<I> {
        pub fn new(input: I, code: ErrorKind) -> (r: Error<I>)
            ensures r.input == input,
        { Error { input, code } }
    }
}

pub type IResult<I, O, E = error::Error<I>> = core::result::Result<(I, O), Err<E>>;

// ---------------------------------------------------------------------------------------------
// small traits standing in for nom's ToUsize / bit-output bounds / input bounds

pub trait ToUsize { spec fn as_int(&self) -> int; }
impl ToUsize for u8 { open spec fn as_int(&self) -> int { *self as int } }
impl ToUsize for u16 { open spec fn as_int(&self) -> int { *self as int } }
impl ToUsize for u32 { open spec fn as_int(&self) -> int { *self as int } }
impl ToUsize for usize { open spec fn as_int(&self) -> int { *self as int } }
impl ToUsize for u64 { open spec fn as_int(&self) -> int { *self as int } }

/// Output integer type of `bits::complete::take`.  `val` is the mathematical value of the result
/// seen as the *unsigned* count-bit field (signed outputs are only used with count < width, where
/// nom's shift/add arithmetic cannot reach the sign bit).
pub trait BitsOut: Sized { spec fn val(&self) -> int; spec fn width() -> int; }
impl BitsOut for u8 { open spec fn val(&self) -> int { *self as int } open spec fn width() -> int { 8 } }
impl BitsOut for u16 { open spec fn val(&self) -> int { *self as int } open spec fn width() -> int { 16 } }
impl BitsOut for u32 { open spec fn val(&self) -> int { *self as int } open spec fn width() -> int { 32 } }
impl BitsOut for i16 { open spec fn val(&self) -> int { *self as int } open spec fn width() -> int { 15 } }
impl BitsOut for i32 { open spec fn val(&self) -> int { *self as int } open spec fn width() -> int { 31 } }

pub trait Input: Sized { spec fn bytes(&self) -> Seq<u8>; }
impl<'a> Input for &'a [u8] { open spec fn bytes(&self) -> Seq<u8> { (*self)@ } }

// ---------------------------------------------------------------------------------------------
// specification vocabulary

/// bit cursor `c` stands at absolute bit `p` of buffer `orig`.
/// Opaque: layout proofs only chain `at` facts through the combinator contracts (pure position arithmetic);
/// the definition is revealed where bytes are actually touched (remaining_bits, binary payload copies).
#[verifier::opaque]
pub open spec fn at<I: Input>(orig: Seq<u8>, c: (I, usize), p: int) -> bool {
    &&& 0 <= p <= 8 * orig.len()
    &&& c.0.bytes() == orig.subrange(p / 8, orig.len() as int)
    &&& c.1 == p % 8
}

/// value of bits [off, off+w) of s, most significant bit first.  Uninterpreted in V (layout proofs
/// are pure position arithmetic); given its bit-level meaning in K where `take` is validated.
pub uninterp spec fn fld(s: Seq<u8>, off: int, w: int) -> int;

/// byte cursor: `i` is the suffix of `orig` starting at byte `p` (opaque for the same reason as `at`)
#[verifier::opaque]
pub open spec fn suf(orig: Seq<u8>, i: &[u8], p: int) -> bool {
    0 <= p <= orig.len() && i@ == orig.subrange(p, orig.len() as int)
}

/// first index >= p of byte b in s, or s.len() if there is none
pub uninterp spec fn find(s: Seq<u8>, p: int, b: u8) -> int;
/// the single byte of a one-byte tag literal
pub uninterp spec fn tagbyte(t: &str) -> u8;
/// number of leading ASCII hex digits of o[p..], capped at 8; their value
pub uninterp spec fn hex_len(o: Seq<u8>, p: int) -> int;
pub uninterp spec fn hex_val(o: Seq<u8>, p: int) -> int;
/// number of leading ASCII decimal digits of o[p..]
pub uninterp spec fn dig_len(o: Seq<u8>, p: int) -> int;

/// recoverable error
pub open spec fn is_error<T, E>(r: core::result::Result<T, Err<E>>) -> bool { r is Err && r->Err_0 is Error }

// ---------------------------------------------------------------------------------------------
pub mod bits {
    use vstd::prelude::*;
    use super::*;

    #[verifier::external_body]
    pub fn bits<I: Input, O, E1, E2, P: FnMut((I, usize)) -> IResult<(I, usize), O, E1>>(parser: P) -> (m: impl FnMut(I) -> IResult<I, O, E2>)
        ensures
            forall|i: I| #[trigger] m.requires((i,)) <== (forall|c: (I, usize)| c.0.bytes() == i.bytes() && c.1 == 0 ==> parser.requires((c,))),
            forall|i: I, r: IResult<I, O, E2>| #[trigger] m.ensures((i,), r) ==>
                exists|c: (I, usize), r1: IResult<(I, usize), O, E1>| c.0.bytes() == i.bytes() && c.1 == 0 && parser.ensures((c,), r1)
                    && (r1 is Err <==> r is Err) && (r1 is Ok ==> r->Ok_0.1 == r1->Ok_0.1)
                    && (is_error(r1) <==> is_error(r)),
    { move |i: I| Err(Err::Incomplete(Needed::Unknown)) }

    pub mod complete {
        use vstd::prelude::*;
        use super::super::*;

        pub open spec fn take_post<I: Input, O: BitsOut, E>(count: int, i: (I, usize), r: IResult<(I, usize), O, E>) -> bool {
            &&& (r is Err ==> r->Err_0 is Error)
            &&& (r is Ok ==> r->Ok_0.0.1 < 8 && (r->Ok_0.0.1 == 0 || r->Ok_0.0.0.bytes().len() > 0) && r->Ok_0.0.0.bytes().len() <= i.0.bytes().len())
            &&& (r is Ok && count <= O::width() ==> 0 <= r->Ok_0.1.val() && (count <= 32 ==> r->Ok_0.1.val() < pow2(count)))
            &&& forall|orig: Seq<u8>, p: int| #[trigger] at(orig, i, p) ==>
                if 8 * orig.len() - p >= count {
                    r is Ok && (count <= O::width() ==> r->Ok_0.1.val() == fld(orig, p, count)) && at(orig, r->Ok_0.0, p + count)
                    // what `at` says about the new cursor, stated directly (callers that touch the bytes need no unfolding hint)
                    && r->Ok_0.0.1 == (p + count) % 8
                    && r->Ok_0.0.0.bytes() == orig.subrange((p + count) / 8, orig.len() as int)
                } else { r is Err }
        }

        /// 2^n for the field widths that occur (explicit table: no recursion, no nonlinear reasoning)
        pub open spec fn pow2(n: int) -> int {
            if n == 0 { 1 } else if n == 1 { 2 } else if n == 2 { 4 } else if n == 3 { 8 } else if n == 4 { 16 } else if n == 5 { 32 } else if n == 6 { 64 } else if n == 7 { 128 } else if n == 8 { 256 } else if n == 9 { 512 } else if n == 10 { 1024 } else if n == 11 { 2048 } else if n == 12 { 4096 } else if n == 13 { 8192 } else if n == 14 { 16384 } else if n == 15 { 32768 } else if n == 16 { 65536 } else if n == 17 { 131072 } else if n == 18 { 262144 } else if n == 19 { 524288 } else if n == 20 { 1048576 } else if n == 21 { 2097152 } else if n == 22 { 4194304 } else if n == 23 { 8388608 } else if n == 24 { 16777216 } else if n == 25 { 33554432 } else if n == 26 { 67108864 } else if n == 27 { 134217728 } else if n == 28 { 268435456 } else if n == 29 { 536870912 } else if n == 30 { 1073741824 } else if n == 31 { 2147483648 } else if n == 32 { 4294967296 } else { 0x1_0000_0000_0000 }
        }

        #[verifier::external_body]
        pub fn take<I: Input, O: BitsOut, C: ToUsize, E>(count: C) -> (f: impl Fn((I, usize)) -> IResult<(I, usize), O, E>)
            ensures
                // count > width (a spare wider than its integer type, e.g. 10 bits into u8) is only safe when
                // nom's first left shift stays below the type width: count - (8 - offset) < width
                forall|i: (I, usize)| #[trigger] f.requires((i,)) <== (i.1 < 8 && (i.1 == 0 || i.0.bytes().len() > 0)
                    && (count.as_int() <= O::width() || count.as_int() + i.1 < O::width() + 8)),
                forall|i: (I, usize), r: IResult<(I, usize), O, E>| #[trigger] f.ensures((i,), r) ==> take_post::<I, O, E>(count.as_int(), i, r),
        { move |i: (I, usize)| Err(Err::Incomplete(Needed::Unknown)) }
    }
}

// ---------------------------------------------------------------------------------------------
pub mod multi {
    use vstd::prelude::*;
    use super::*;

    /// one more element can be parsed from c, giving (c2, o)
    pub open spec fn step_ok<I, O, E, F: FnMut(I) -> IResult<I, O, E>>(parse: F, c: I, c2: I, o: O) -> bool {
        parse.ensures((c,), Ok((c2, o)))
    }

    /// list semantics of many_m_n(1, 4, parse): explicit unrolling (every use in the repository is (1, 4, _))
    pub open spec fn many14_post<I, O, E, F: FnMut(I) -> IResult<I, O, E>>(parse: F, i: I, r: IResult<I, Vec<O>, E>) -> bool {
        match r {
            Err(_) => exists|r0: IResult<I, O, E>| parse.ensures((i,), r0) && r0 is Err,
            Ok((c, v)) => exists|c1: I, c2: I, c3: I, c4: I| {
                &&& 1 <= v@.len() <= 4
                &&& step_ok(parse, i, c1, v@[0])
                &&& (v@.len() == 1 ==> c == c1 && exists|r1: IResult<I, O, E>| parse.ensures((c1,), r1) && r1 is Err)
                &&& (v@.len() >= 2 ==> step_ok(parse, c1, c2, v@[1]))
                &&& (v@.len() == 2 ==> c == c2 && exists|r2: IResult<I, O, E>| parse.ensures((c2,), r2) && r2 is Err)
                &&& (v@.len() >= 3 ==> step_ok(parse, c2, c3, v@[2]))
                &&& (v@.len() == 3 ==> c == c3 && exists|r3: IResult<I, O, E>| parse.ensures((c3,), r3) && r3 is Err)
                &&& (v@.len() == 4 ==> step_ok(parse, c3, c4, v@[3]) && c == c4)
            },
        }
    }

    #[verifier::external_body]
    pub fn many_m_n<I, O, E, F: FnMut(I) -> IResult<I, O, E>>(min: usize, max: usize, parse: F) -> (m: impl FnMut(I) -> IResult<I, Vec<O>, E>)
        requires min == 1 && max == 4,
        ensures
            forall|i: I| #[trigger] m.requires((i,)) <== (parse.requires((i,)) && forall|c: I, c2: I, o: O| parse.requires((c,)) && #[trigger] parse.ensures((c,), Ok((c2, o))) ==> parse.requires((c2,))),
            forall|i: I, r: IResult<I, Vec<O>, E>| #[trigger] m.ensures((i,), r) ==> many14_post(parse, i, r),
    { move |i: I| Err(Err::Incomplete(Needed::Unknown)) }

    /// `count` is only called inside `parse_6bit_ascii`, which is outside Verus's subset (external_body
    /// there, discharged in K); this stub exists so the verbatim text type-checks.
    #[verifier::external_body]
    pub fn count<I, O, E, F: FnMut(I) -> IResult<I, O, E>>(f: F, count: usize) -> (m: impl FnMut(I) -> IResult<I, Vec<O>, E>)
    { move |i: I| Err(Err::Incomplete(Needed::Unknown)) }
}

// ---------------------------------------------------------------------------------------------
pub mod bytes { pub mod complete {
    use vstd::prelude::*;
    use super::super::*;

    #[verifier::external_body]
    pub fn tag<'a, 'b, E>(t: &'b str) -> (f: impl Fn(&'a [u8]) -> IResult<&'a [u8], &'a [u8], E>)
        ensures forall|i: &'a [u8]| #[trigger] f.requires((i,)),
            forall|i: &'a [u8], r: IResult<&'a [u8], &'a [u8], E>| #[trigger] f.ensures((i,), r) ==>
                (i@.len() >= 1 && i@[0] == tagbyte(t) ==> r is Ok && r->Ok_0.1@ == i@.subrange(0, 1) && r->Ok_0.0@ == i@.subrange(1, i@.len() as int))
                && (!(i@.len() >= 1 && i@[0] == tagbyte(t)) ==> is_error(r))
                && (r is Ok ==> suf(i@, r->Ok_0.0, 1))
                && (forall|orig: Seq<u8>, p: int| #[trigger] suf(orig, i, p) ==>
                        if p < orig.len() && orig[p] == tagbyte(t) { r is Ok && suf(orig, r->Ok_0.0, p + 1) } else { is_error(r) }),
    { move |i: &'a [u8]| Err(Err::Incomplete(Needed::Unknown)) }

    #[verifier::external_body]
    pub fn take_until<'a, 'b, E>(t: &'b str) -> (f: impl Fn(&'a [u8]) -> IResult<&'a [u8], &'a [u8], E>)
        ensures forall|i: &'a [u8]| #[trigger] f.requires((i,)),
            forall|i: &'a [u8], r: IResult<&'a [u8], &'a [u8], E>| #[trigger] f.ensures((i,), r) ==>
                ({ let k = find(i@, 0, tagbyte(t));
                    if k < i@.len() { r is Ok && r->Ok_0.1@ == i@.subrange(0, k) && suf(i@, r->Ok_0.0, k) } else { is_error(r) } }) &&
                (forall|orig: Seq<u8>, p: int| #[trigger] suf(orig, i, p) ==> {
                    let k = find(orig, p, tagbyte(t));
                    if k < orig.len() { r is Ok && r->Ok_0.1@ == orig.subrange(p, k) && suf(orig, r->Ok_0.0, k) } else { is_error(r) }
                }),
    { move |i: &'a [u8]| Err(Err::Incomplete(Needed::Unknown)) }

    #[verifier::external_body]
    pub fn take<'a, C: ToUsize, E>(count: C) -> (f: impl Fn(&'a [u8]) -> IResult<&'a [u8], &'a [u8], E>)
        ensures forall|i: &'a [u8]| #[trigger] f.requires((i,)),
            forall|i: &'a [u8], r: IResult<&'a [u8], &'a [u8], E>| #[trigger] f.ensures((i,), r) ==>
                (if i@.len() >= count.as_int() { r is Ok && r->Ok_0.1@ == i@.subrange(0, count.as_int()) && suf(i@, r->Ok_0.0, count.as_int()) } else { is_error(r) }) &&
                (forall|orig: Seq<u8>, p: int| #[trigger] suf(orig, i, p) ==> {
                    if orig.len() - p >= count.as_int() { r is Ok && r->Ok_0.1@ == orig.subrange(p, p + count.as_int()) && suf(orig, r->Ok_0.0, p + count.as_int()) } else { is_error(r) }
                }),
    { move |i: &'a [u8]| Err(Err::Incomplete(Needed::Unknown)) }
}}

pub mod character { pub mod complete {
    use vstd::prelude::*;
    use super::super::*;

    #[verifier::external_body]
    pub fn anychar<'a, E>(i: &'a [u8]) -> (r: IResult<&'a [u8], char, E>)
        ensures i@.len() >= 1 ==> r is Ok && r->Ok_0.1 as int == i@[0] as int, i@.len() == 0 ==> is_error(r),
    { unimplemented!() }

    /// only called inside `parse_numeric_string` (external_body in V, K-checked)
    #[verifier::external_body]
    pub fn digit1<'a, E>(i: &'a [u8]) -> (r: IResult<&'a [u8], &'a [u8], E>)
        ensures forall|orig: Seq<u8>, p: int| #[trigger] suf(orig, i, p) ==>
            if dig_len(orig, p) >= 1 { r is Ok && r->Ok_0.1@ == orig.subrange(p, p + dig_len(orig, p)) && suf(orig, r->Ok_0.0, p + dig_len(orig, p)) } else { is_error(r) },
    { unimplemented!() }
}}

pub mod number { pub mod complete {
    use vstd::prelude::*;
    use super::super::*;

    pub open spec fn hex_post<'a, E>(i: &'a [u8], r: IResult<&'a [u8], u32, E>) -> bool {
        forall|orig: Seq<u8>, p: int| #[trigger] suf(orig, i, p) ==> {
            &&& (hex_len(orig, p) >= 1 ==> r is Ok && r->Ok_0.1 as int == hex_val(orig, p) && suf(orig, r->Ok_0.0, p + hex_len(orig, p)))
            &&& (hex_len(orig, p) < 1 ==> is_error(r))
        }
    }

    #[verifier::external_body]
    pub fn hex_u32<'a, E>(i: &'a [u8]) -> (r: IResult<&'a [u8], u32, E>) ensures hex_post(i, r) { unimplemented!() }
}}

pub mod branch {
    use vstd::prelude::*;
    use super::*;

    #[verifier::external_body]
    pub fn alt<I, O, E, A: Fn(I) -> IResult<I, O, E>, B: Fn(I) -> IResult<I, O, E>>(l: (A, B)) -> (f: impl Fn(I) -> IResult<I, O, E>)
        ensures forall|i: I| #[trigger] f.requires((i,)) <== l.0.requires((i,)) && l.1.requires((i,)),
            forall|i: I, r: IResult<I, O, E>| #[trigger] f.ensures((i,), r) ==>
                exists|ra: IResult<I, O, E>, rb: IResult<I, O, E>| l.0.ensures((i,), ra) && l.1.ensures((i,), rb)
                    && (ra is Ok ==> r == ra) && (is_error(ra) && rb is Ok ==> r == rb) && (is_error(ra) && is_error(rb) ==> is_error(r))
                    && (ra is Err && !is_error(ra) ==> r is Err) && (is_error(ra) && rb is Err && !is_error(rb) ==> r is Err),
    { move |i: I| Err(Err::Incomplete(Needed::Unknown)) }
}

pub mod sequence {
    use vstd::prelude::*;
    use super::*;

    #[verifier::external_body]
    pub fn delimited<I, O1, O2, O3, E, F: Fn(I) -> IResult<I, O1, E>, G: Fn(I) -> IResult<I, O2, E>, H: Fn(I) -> IResult<I, O3, E>>(a: F, b: G, c: H) -> (f: impl Fn(I) -> IResult<I, O2, E>)
        ensures forall|i: I| #[trigger] f.requires((i,)) <== (a.requires((i,)) && forall|j: I| b.requires((j,)) && c.requires((j,))),
            forall|i: I, r: IResult<I, O2, E>| #[trigger] f.ensures((i,), r) ==>
                exists|ra: IResult<I, O1, E>| a.ensures((i,), ra) && (ra is Err ==> r is Err && is_error(ra) == is_error(r)) && (ra is Ok ==>
                    exists|rb: IResult<I, O2, E>| b.ensures((ra->Ok_0.0,), rb) && (rb is Err ==> r is Err && is_error(rb) == is_error(r)) && (rb is Ok ==>
                        exists|rc: IResult<I, O3, E>| c.ensures((rb->Ok_0.0,), rc) && (rc is Err ==> r is Err && is_error(rc) == is_error(r))
                            && (rc is Ok ==> r is Ok && r->Ok_0.0 == rc->Ok_0.0 && r->Ok_0.1 == rb->Ok_0.1))),
    { move |i: I| Err(Err::Incomplete(Needed::Unknown)) }

    #[verifier::external_body]
    pub fn terminated<I, O1, O2, E, F: Fn(I) -> IResult<I, O1, E>, G: Fn(I) -> IResult<I, O2, E>>(a: F, b: G) -> (f: impl Fn(I) -> IResult<I, O1, E>)
        ensures forall|i: I| #[trigger] f.requires((i,)) <== (a.requires((i,)) && forall|j: I| b.requires((j,))),
            forall|i: I, r: IResult<I, O1, E>| #[trigger] f.ensures((i,), r) ==>
                exists|ra: IResult<I, O1, E>| a.ensures((i,), ra) && (ra is Err ==> r is Err) && (ra is Ok ==>
                    exists|rb: IResult<I, O2, E>| b.ensures((ra->Ok_0.0,), rb) && (rb is Err ==> r is Err)
                        && (rb is Ok ==> r is Ok && r->Ok_0.0 == rb->Ok_0.0 && r->Ok_0.1 == ra->Ok_0.1)),
    { move |i: I| Err(Err::Incomplete(Needed::Unknown)) }
}

pub mod combinator {
    use vstd::prelude::*;
    use super::*;

    #[verifier::external_body]
    pub fn peek<I, O, E, F: Fn(I) -> IResult<I, O, E>>(parser: F) -> (m: impl Fn(I) -> IResult<I, O, E>)
        ensures forall|i: I| #[trigger] m.requires((i,)) <== parser.requires((i,)),
            forall|i: I, r: IResult<I, O, E>| #[trigger] m.ensures((i,), r) ==>
                exists|r1: IResult<I, O, E>| parser.ensures((i,), r1) && (r1 is Err ==> r is Err) && (r1 is Ok ==> r is Ok && r->Ok_0.0 == i && r->Ok_0.1 == r1->Ok_0.1),
    { move |i: I| Err(Err::Incomplete(Needed::Unknown)) }

    #[verifier::external_body]
    pub fn map<I, O1, O2, E, F: Fn(I) -> IResult<I, O1, E>, G: Fn(O1) -> O2>(parser: F, f: G) -> (m: impl Fn(I) -> IResult<I, O2, E>)
        ensures
            forall|i: I| #[trigger] m.requires((i,)) <== parser.requires((i,))
                && (forall|r1: IResult<I, O1, E>| parser.ensures((i,), r1) && r1 is Ok ==> f.requires((r1->Ok_0.1,))),
            forall|i: I, r: IResult<I, O2, E>| #[trigger] m.ensures((i,), r) ==>
                exists|r1: IResult<I, O1, E>| parser.ensures((i,), r1) && (r1 is Err ==> r is Err && is_error(r1) == is_error(r))
                    && (r1 is Ok ==> r is Ok && r->Ok_0.0 == r1->Ok_0.0 && f.ensures((r1->Ok_0.1,), r->Ok_0.1)),
    { move |i: I| Err(Err::Incomplete(Needed::Unknown)) }

    /// only used inside functions that are external_body in V
    #[verifier::external_body]
    pub fn map_res<I, O1, O2, E, E2, F: Fn(I) -> IResult<I, O1, E>, G: Fn(O1) -> core::result::Result<O2, E2>>(parser: F, f: G) -> (m: impl Fn(I) -> IResult<I, O2, E>)
    { move |i: I| Err(Err::Incomplete(Needed::Unknown)) }

    #[verifier::external_body]
    pub fn opt<I, O, E, F: Fn(I) -> IResult<I, O, E>>(parser: F) -> (m: impl Fn(I) -> IResult<I, Option<O>, E>)
        ensures
            forall|i: I| #[trigger] m.requires((i,)) <== parser.requires((i,)),
            forall|i: I, r: IResult<I, Option<O>, E>| #[trigger] m.ensures((i,), r) ==>
                exists|r1: IResult<I, O, E>| parser.ensures((i,), r1)
                    && (r1 is Ok ==> r is Ok && r->Ok_0.0 == r1->Ok_0.0 && r->Ok_0.1 == Some(r1->Ok_0.1))
                    && (is_error(r1) ==> r is Ok && r->Ok_0.0 == i && r->Ok_0.1 is None)
                    && (r1 is Err && !is_error(r1) ==> r is Err),
    { move |i: I| Err(Err::Incomplete(Needed::Unknown)) }

    #[verifier::external_body]
    pub fn verify<I, O, E, F: Fn(I) -> IResult<I, O, E>, G: Fn(&O) -> bool>(parser: F, g: G) -> (m: impl Fn(I) -> IResult<I, O, E>)
        ensures
            forall|i: I| #[trigger] m.requires((i,)) <== parser.requires((i,)) && forall|o: &O| g.requires((o,)),
            forall|i: I, r: IResult<I, O, E>| #[trigger] m.ensures((i,), r) ==>
                exists|r1: IResult<I, O, E>| parser.ensures((i,), r1)
                    && (r1 is Err ==> r is Err)
                    && (r1 is Ok ==> exists|b: bool| g.ensures((&r1->Ok_0.1,), b) && (b ==> r == r1) && (!b ==> is_error(r))),
    { move |i: I| Err(Err::Incomplete(Needed::Unknown)) }
}

} // verus!

// Display is needed only so that `err.to_string()` in errors.rs type-checks (that code is external in V)
impl<E: core::fmt::Debug> core::fmt::Display for Err<E> {
    fn fmt(&self, f: &mut core::fmt::Formatter<'_>) -> core::fmt::Result { write!(f, "{:?}", self) }
}
