//! Native demonstrations of the defects that the contract proofs refuted on the unchanged tree.
//! `demo <id>` exits 0 if the property holds for the demonstrating input, 1 (or panics) if it is violated.
use ais::messages::{self, AisMessage};
use ais::sentence::{AisFragments, AisParser};
use std::panic;

fn ck(body: &str) -> String {
    let c = body.bytes().fold(0u8, |a, b| a ^ b);
    format!("!{}*{:02X}", body, c)
}

/// pack (value, width) fields MSB first into bytes
fn pack(fields: &[(u64, u32)]) -> Vec<u8> {
    let mut bits: Vec<u8> = Vec::new();
    for &(v, w) in fields {
        for i in (0..w).rev() {
            bits.push(((v >> i) & 1) as u8);
        }
    }
    while bits.len() % 8 != 0 {
        bits.push(0);
    }
    bits.chunks(8).map(|c| c.iter().fold(0u8, |a, b| (a << 1) | b)).collect()
}

fn main() {
    let id = std::env::args().nth(1).unwrap_or_default();
    let ok = match id.as_str() {
        // D1 (C01/C06): a fragment numbered below the stored one must be an error, not an arithmetic overflow
        "D1" => {
            let r = panic::catch_unwind(|| {
                let mut p = AisParser::new();
                let _ = p.parse(ck("AIVDM,3,1,7,A,15M6,0").as_bytes(), false);
                let _ = p.parse(ck("AIVDM,3,2,7,A,15M6,0").as_bytes(), false);
                p.parse(ck("AIVDM,3,0,7,A,15M6,0").as_bytes(), false).is_err()
            });
            matches!(r, Ok(true))
        }
        // D2 (C01): unarmoring the empty string with a fill count must return
        "D2" => {
            let r = panic::catch_unwind(|| messages::unarmor(b"", 2).map(|v| v.len()));
            matches!(r, Ok(Ok(0)))
        }
        // D3 (C06): after a delivery no group is open, so a lone "3 of 3" must be rejected
        "D3" => {
            let mut p = AisParser::new();
            let a = p.parse(ck("AIVDM,2,1,7,A,1111,0").as_bytes(), false);
            let b = p.parse(ck("AIVDM,2,2,7,A,2222,0").as_bytes(), false);
            let c = p.parse(ck("AIVDM,3,3,7,A,3333,0").as_bytes(), false);
            a.is_ok() && b.is_ok() && c.is_err()
        }
        // D4 (C19): sentence-level type = 6-bit value of the first payload character ('1' -> 1)
        "D4" => {
            let mut p = AisParser::new();
            match p.parse(ck("AIVDM,1,1,,A,15M67FC000G?ufbE`FepT@3n00Sa,0").as_bytes(), false) {
                Ok(AisFragments::Complete(s)) => s.message_type == 1,
                _ => false,
            }
        }
        // D5 (C16): type 9, selector 0 (SOTDMA), sync 1, time-out 3, sub message 77
        "D5" => {
            let bytes = pack(&[(9, 6), (0, 2), (111111111, 30), (100, 12), (50, 10), (0, 1), (0, 28), (0, 27), (0, 12), (0, 6), (0, 8), (0, 1), (0, 3), (0, 1), (0, 1),
                               (0, 1), (1, 2), (3, 3), (77, 14)]);
            match messages::parse(&bytes) {
                Ok(AisMessage::StandardAircraftPositionReport(m)) => format!("{:?}", m.radio_status).contains("slot_timeout: 3") && format!("{:?}", m.radio_status).contains("ReceivedStations(77)"),
                _ => false,
            }
        }
        // D6 (C04/C14): 160-bit type 15, second destination at bit 110
        "D6" => {
            let bytes = pack(&[(15, 6), (0, 2), (111111111, 30), (0, 2), (222222222, 30), (5, 6), (100, 12), (0, 2), (3, 6), (200, 12), (0, 2),
                               (333333333, 30), (5, 6), (300, 12), (0, 2)]);
            match messages::parse(&bytes) {
                Ok(AisMessage::Interrogation(m)) => m.stations.len() == 2 && m.stations[1].mmsi == 333333333 && m.stations[1].messages[0].message_type == 5
                    && m.stations[1].messages[0].slot_offset == Some(300),
                _ => false,
            }
        }
        // D7 (C11): type 27 longitude 181 deg / latitude 91 deg at 1/10 minute resolution are 'not available'
        "D7" => {
            let bytes = pack(&[(27, 6), (0, 2), (111111111, 30), (0, 1), (0, 1), (0, 4), (108600, 18), (54600, 17), (10, 6), (90, 9), (0, 1), (0, 1)]);
            match messages::parse(&bytes) {
                Ok(AisMessage::LongRangeAisBroadcastMessage(m)) => m.longitude.is_none() && m.latitude.is_none(),
                _ => false,
            }
        }
        _ => {
            eprintln!("unknown id");
            std::process::exit(2)
        }
    };
    println!("{} {}", id, if ok { "holds" } else { "VIOLATED" });
    std::process::exit(if ok { 0 } else { 1 });
}
