//! Replays a counterexample against the real code.  usage:
//!   ais-replay parse  <b0> <b1> ...        messages::parse on the given bytes (decimal)
//!   ais-replay unarmor <fill> <b0> <b1> .. messages::unarmor
//!   ais-replay lines  <decode 0|1> <line> [<line> ...]   one AisParser fed the lines in order
use std::env;

fn main() {
    let a: Vec<String> = env::args().collect();
    match a.get(1).map(|s| s.as_str()) {
        Some("parse") => {
            let bytes: Vec<u8> = a[2..].iter().map(|x| x.parse().unwrap()).collect();
            println!("{:?}", ais::messages::parse(&bytes));
        }
        Some("unarmor") => {
            let fill: usize = a[2].parse().unwrap();
            let bytes: Vec<u8> = a[3..].iter().map(|x| x.parse().unwrap()).collect();
            println!("{:?}", ais::messages::unarmor(&bytes, fill));
        }
        Some("lines") => {
            let decode = a[2] == "1";
            let mut p = ais::AisParser::new();
            for l in &a[3..] {
                println!("{:?}", p.parse(l.as_bytes(), decode));
            }
        }
        _ => {
            eprintln!("usage: ais-replay parse|unarmor|lines ...");
            std::process::exit(2);
        }
    }
}
