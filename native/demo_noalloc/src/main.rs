//! D8 (C01 / C18): in the no-allocator build a text longer than 20 characters must be an error, never a panic.
use ais::messages;
use std::panic;

fn main() {
    // type 14 (safety related broadcast): 40 header bits + 21 characters of text = 166 bits -> 21 bytes
    let mut bytes = [0u8; 21];
    bytes[0] = 14 << 2;
    let r = panic::catch_unwind(|| messages::parse(&bytes).is_err());
    let ok = matches!(r, Ok(true));
    println!("D8 {}", if ok { "holds" } else { "VIOLATED" });
    std::process::exit(if ok { 0 } else { 1 });
}
