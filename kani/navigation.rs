use super::*;

/// C11 / C01: rate of turn over all 256 codes: 0x80 absent, otherwise the signed 8-bit value
#[kani::proof]
#[kani::unwind(3)]
fn k_rot_parse() {
    let d: u8 = kani::any();
    let r = RateOfTurn::parse(d);
    if d == 128 {
        assert!(r.is_none());
    } else {
        let expect: i16 = if d >= 128 { d as i16 - 256 } else { d as i16 };
        assert!(r.unwrap().raw as i16 == expect);
        assert!(r.unwrap().raw != -128);
    }
}
