use super::*;

/// C12 / C01: DTE flag over the values a 1-bit field can hold
#[kani::proof]
#[kani::unwind(3)]
fn k_dte_from() {
    let d: u8 = kani::any();
    kani::assume(d <= 1);
    let r = Dte::from(d);
    assert!(r == if d == 0 { Dte::Ready } else { Dte::NotReady });
}

/// C14: the derived default is 'not ready'
#[kani::proof]
#[kani::unwind(3)]
fn k_dte_default() {
    assert!(Dte::default() == Dte::NotReady);
}
