use super::*;

/// `format!` on error paths dominates CBMC's cost: replaced by a stub that returns an empty string (trusted:
/// formatting terminates and does not panic)
fn stub_fmt(_a: core::fmt::Arguments<'_>) -> crate::lib::std::string::String {
    crate::lib::std::string::String::new()
}

fn ref_sixbit(c: u8) -> Option<u8> {
    if c >= 48 && c <= 87 { Some(c - 48) } else if c >= 96 && c <= 119 { Some(c - 56) } else { None }
}

/// C03 reference: bit j (MSB first) of the unarmored output for n characters
fn ref_bit(data: &[u8], fill: usize, j: usize) -> u8 {
    let n = data.len();
    if n * 6 >= fill && j < n * 6 - fill {
        let v = match ref_sixbit(data[j / 6]) { Some(v) => v, None => 0 };
        (v >> (5 - (j % 6))) & 1
    } else {
        0
    }
}

/// C03 (bounded stand-in, one concrete length per harness): for every content and every fill count 0..=5
fn k_unarmor<const N: usize>() {
    let data: [u8; N] = kani::any();
    let fill: usize = kani::any();
    kani::assume(fill <= 5);
    let mut valid = true;
    let mut i = 0;
    while i < N {
        if ref_sixbit(data[i]).is_none() {
            valid = false;
        }
        i += 1;
    }
    let r = unarmor(&data, fill);
    assert!(r.is_ok() == valid);
    if let Ok(out) = r {
        assert!(out.len() == (6 * N + 7) / 8);
        let mut j = 0;
        while j < 8 * ((6 * N + 7) / 8) {
            let got = (out[j / 8] >> (7 - (j % 8))) & 1;
            assert!(got == ref_bit(&data, fill, j));
            j += 1;
        }
    }
}

macro_rules! unarmor_harness {
    ($name:ident, $n:expr, $unw:expr) => {
        #[kani::proof]
        #[kani::unwind($unw)]
        #[kani::stub(std::fmt::format, stub_fmt)]
        fn $name() {
            k_unarmor::<$n>();
        }
    };
}
unarmor_harness!(k_unarmor_0, 0, 3);
unarmor_harness!(k_unarmor_1, 1, 10);
unarmor_harness!(k_unarmor_2, 2, 18);
unarmor_harness!(k_unarmor_3, 3, 26);
unarmor_harness!(k_unarmor_4, 4, 26);
unarmor_harness!(k_unarmor_5, 5, 34);
unarmor_harness!(k_unarmor_6, 6, 42);
unarmor_harness!(k_unarmor_7, 7, 50);
unarmor_harness!(k_unarmor_8, 8, 50);
unarmor_harness!(k_unarmor_9, 9, 58);
unarmor_harness!(k_unarmor_12, 12, 74);
unarmor_harness!(k_unarmor_16, 16, 98);
