use super::*;

/// C18 capacity: a fragment that does not fit into the 384-byte reassembly buffer is an error, never a panic, and leaves the
/// buffered payload alone (one concrete state: buffer full; one concrete 1-byte fragment)
#[kani::proof]
#[kani::unwind(390)]
fn k_na_extend_full() {
    let mut p = AisParser::new();
    p.fragment_number = 1;
    let _ = p.data.resize(MAX_SENTENCE_SIZE_BYTES, b'0');
    let mut d = AisRawData::default();
    let _ = d.push(b'1');
    let s = AisSentence {
        talker_id: TalkerId::AI, report_type: AisReportType::VDM, num_fragments: 3, fragment_number: 2, message_id: None, channel: None,
        data: d, fill_bit_count: 0, message_type: 0, message: None,
    };
    let r = p.verify_and_extend_data(&s);
    assert!(r.is_err());
    assert!(p.data.len() == MAX_SENTENCE_SIZE_BYTES);
}
