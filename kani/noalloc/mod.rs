// Kani harnesses for the no-allocator build (cargo kani --no-default-features), appended to src/messages/mod.rs
use super::*;

fn ref_sixbit(c: u8) -> Option<u8> {
    if c >= 48 && c <= 87 { Some(c - 48) } else if c >= 96 && c <= 119 { Some(c - 56) } else { None }
}
fn ref_bit(data: &[u8], fill: usize, j: usize) -> u8 {
    let n = data.len();
    if n * 6 >= fill && j < n * 6 - fill {
        let v = match ref_sixbit(data[j / 6]) { Some(v) => v, None => 0 };
        (v >> (5 - (j % 6))) & 1
    } else {
        0
    }
}

/// C18 / C03 (bounded): the no-allocator unarmor computes the same reference packing as the std build, for one
/// concrete length, all contents, all fill counts
fn k_na_unarmor<const N: usize>() {
    let data: [u8; N] = kani::any();
    let fill: usize = kani::any();
    kani::assume(fill <= 5);
    let mut valid = true;
    let mut i = 0;
    while i < N {
        if ref_sixbit(data[i]).is_none() { valid = false; }
        i += 1;
    }
    let r = unarmor(&data, fill);
    assert!(r.is_ok() == valid);
    if let Ok(out) = r {
        assert!(out.len() == (6 * N + 7) / 8);
        let mut j = 0;
        while j < 8 * ((6 * N + 7) / 8) {
            let got = (out[j / 8] >> (7 - (j % 8))) & 1;
            assert!(got == ref_bit(&data, fill, j));
            j += 1;
        }
    }
}
#[kani::proof]
#[kani::unwind(3)]
fn k_na_unarmor_0() { k_na_unarmor::<0>(); }
#[kani::proof]
#[kani::unwind(26)]
fn k_na_unarmor_3() { k_na_unarmor::<3>(); }
#[kani::proof]
#[kani::unwind(34)]
fn k_na_unarmor_5() { k_na_unarmor::<5>(); }
#[kani::proof]
#[kani::unwind(50)]
fn k_na_unarmor_8() { k_na_unarmor::<8>(); }

/// C18 capacity: text longer than 20 characters is an error in the no-allocator build, never a panic (one concrete input)
#[kani::proof]
#[kani::unwind(4)]
fn k_na_text_21() {
    let bytes = [0u8; 17];
    let r = parsers::parse_6bit_ascii((&bytes[..], 0), 21 * 6);
    assert!(r.is_err());
}

fn ref_ascii6(v: u8) -> u8 { if v < 32 { v + 64 } else { v } }
fn ref_six(bytes: &[u8], q: usize) -> u8 {
    let w = ((bytes[q / 8] as u16) << 8) | bytes[q / 8 + 1] as u16;
    ((w >> (10 - (q % 8))) & 0x3f) as u8
}

/// C18 / C13 (bounded): the no-allocator text decoding agrees with the reference (and hence with the std build) on every
/// 2-character field at every bit offset
#[kani::proof]
#[kani::unwind(5)]
fn k_na_text_2() {
    let bytes: [u8; 4] = kani::any();
    let off: usize = kani::any();
    kani::assume(off < 8);
    let c0 = ref_ascii6(ref_six(&bytes, off));
    let c1 = ref_ascii6(ref_six(&bytes, off + 6));
    let chars = [c0, c1];
    let mut a = 0usize;
    while a < 2 && chars[a] == b' ' { a += 1; }
    let mut b = 2usize;
    while b > a && chars[b - 1] == b'@' { b -= 1; }
    while b > a && chars[b - 1] == b' ' { b -= 1; }
    let r = parsers::parse_6bit_ascii((&bytes[..], off), 12);
    let ((_rest, roff), text) = r.unwrap();
    assert!(roff == (off + 12) % 8);
    let tb = text.as_bytes();
    assert!(tb.len() == b - a);
    if b - a >= 1 { assert!(tb[0] == chars[a]); }
    if b - a >= 2 { assert!(tb[1] == chars[a + 1]); }
}

type NaBE<'a> = nom::error::Error<(&'a [u8], usize)>;

/// C18 (bounded): the hand-written `nom_noalloc::many_m_n::<.., 4>(1, p)` meets the contract assumed for nom's
/// `many_m_n(1, 4, p)` (the one validated by k_nom_many_1_4 on the std build): with a one-byte element parser on 0..=6 bytes it
/// returns as many elements as are completely present, at most four, in order; fewer than one is an error
#[kani::proof]
#[kani::unwind(8)]
fn k_na_many_1_4() {
    let buf: [u8; 6] = kani::any();
    let n: usize = kani::any();
    kani::assume(n <= 6);
    let r: nom::IResult<(&[u8], usize), crate::lib::std::vec::Vec<u8, 4>, NaBE> =
        nom_noalloc::many_m_n::<_, _, _, _, 4>(1, nom::bits::complete::take::<_, u8, _, _>(8usize))((&buf[..n], 0));
    if n == 0 {
        assert!(r.is_err());
    } else {
        let ((rest, roff), v) = r.unwrap();
        let k = if n >= 4 { 4 } else { n };
        assert!(v.len() == k);
        assert!(roff == 0 && rest.len() == n - k);
        let mut i = 0;
        while i < 4 {
            if i < k {
                assert!(v[i] == buf[i]);
            }
            i += 1;
        }
    }
}
