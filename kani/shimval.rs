// Validation of the nom contract shim (/verif/shims/nom.rs) against the REAL nom 7.1.3 code.
// Each harness restates one assumed contract on a bounded domain (stated per harness).
use nom::IResult;

type BE<'a> = nom::error::Error<(&'a [u8], usize)>;
type SE<'a> = nom::error::Error<&'a [u8]>;

/// reference meaning of `fld`: value of bits [off, off+w) of bytes, MSB first
fn ref_fld(bytes: &[u8], off: usize, w: usize) -> u64 {
    let mut v: u64 = 0;
    let mut i = 0;
    while i < 40 {
        if i < w {
            let b = off + i;
            let bit = (bytes[b / 8] >> (7 - (b % 8))) & 1;
            v = (v << 1) | bit as u64;
        }
        i += 1;
    }
    v
}

macro_rules! take_harness {
    ($name:ident, $ty:ty, $maxcount:expr) => {
        /// bits::complete::take into $ty: take_post for every count <= $maxcount, bit offset < 8, buffer of 0..=6 bytes, all contents
        #[kani::proof]
        #[kani::unwind(42)]
        fn $name() {
            let buf: [u8; 6] = kani::any();
            let n: usize = kani::any();
            kani::assume(n <= 6);
            let off: usize = kani::any();
            kani::assume(off < 8 && (off == 0 || n > 0));
            let count: usize = kani::any();
            kani::assume(count <= $maxcount);
            let r: IResult<(&[u8], usize), $ty, BE> = nom::bits::complete::take(count)((&buf[..n], off));
            if 8 * n - off >= count {
                let ((rest, roff), v) = r.unwrap();
                assert!(v as i64 as u64 == ref_fld(&buf, off, count));
                assert!((v as i64) >= 0 && ((v as i64 as u64) < (1u64 << count)));
                assert!(roff == (off + count) % 8 && roff < 8);
                assert!(rest.len() == n - (off + count) / 8);
                assert!(roff == 0 || rest.len() > 0);
                if rest.len() > 0 {
                    assert!(rest[0] == buf[(off + count) / 8]);
                    assert!(rest[rest.len() - 1] == buf[n - 1]);
                }
            } else {
                assert!(matches!(r, Err(nom::Err::Error(_))));
            }
            kani::cover!(8 * n - off >= count && count == $maxcount);
            kani::cover!(8 * n - off < count);
        }
    };
}
take_harness!(k_nom_take_u8, u8, 8);
take_harness!(k_nom_take_u16, u16, 16);
take_harness!(k_nom_take_u32, u32, 32);
take_harness!(k_nom_take_i16, i16, 15);
take_harness!(k_nom_take_i32, i32, 31);

/// a spare wider than its integer type (count 9..=15 into u8): no panic and the cursor advances by count, provided
/// count + offset < 16 (the shim's precondition)
#[kani::proof]
#[kani::unwind(8)]
fn k_nom_take_u8_wide() {
    let buf: [u8; 4] = kani::any();
    let off: usize = kani::any();
    let count: usize = kani::any();
    kani::assume(off < 8 && count > 8 && count < 16);
    kani::assume(count + off < 16);
    let r: IResult<(&[u8], usize), u8, BE> = nom::bits::complete::take(count)((&buf[..], off));
    let ((rest, roff), _v) = r.unwrap();
    assert!(roff == (off + count) % 8);
    assert!(rest.len() == 4 - (off + count) / 8);
}

/// multi::many_m_n(1, 4, p) with a one-byte element parser: as many elements as are completely present, at most four,
/// in order; fewer than one is an error
#[kani::proof]
#[kani::unwind(8)]
fn k_nom_many_1_4() {
    let buf: [u8; 6] = kani::any();
    let n: usize = kani::any();
    kani::assume(n <= 6);
    let r: IResult<(&[u8], usize), Vec<u8>, BE> = nom::multi::many_m_n(1, 4, nom::bits::complete::take::<_, u8, _, _>(8usize))((&buf[..n], 0));
    if n == 0 {
        assert!(r.is_err());
    } else {
        let ((rest, roff), v) = r.unwrap();
        let k = if n >= 4 { 4 } else { n };
        assert!(v.len() == k);
        assert!(roff == 0 && rest.len() == n - k);
        let mut i = 0;
        while i < 4 {
            if i < k {
                assert!(v[i] == buf[i]);
            }
            i += 1;
        }
    }
}

/// bytes::complete::tag / take and character::complete::anychar on buffers of 0..=4 bytes
#[kani::proof]
#[kani::unwind(6)]
fn k_nom_tag_take_anychar() {
    let buf: [u8; 4] = kani::any();
    let n: usize = kani::any();
    kani::assume(n <= 4);
    let i = &buf[..n];
    let r: IResult<&[u8], &[u8], SE> = nom::bytes::complete::tag(",")(i);
    if n >= 1 && buf[0] == b',' {
        let (rest, t) = r.unwrap();
        assert!(t.len() == 1 && rest.len() == n - 1);
    } else {
        assert!(matches!(r, Err(nom::Err::Error(_))));
    }
    let r2: IResult<&[u8], &[u8], SE> = nom::bytes::complete::take(2u8)(i);
    if n >= 2 {
        let (rest, t) = r2.unwrap();
        assert!(t.len() == 2 && t[0] == buf[0] && t[1] == buf[1] && rest.len() == n - 2);
    } else {
        assert!(matches!(r2, Err(nom::Err::Error(_))));
    }
    let r3: IResult<&[u8], char, SE> = nom::character::complete::anychar(i);
    if n >= 1 {
        let (rest, c) = r3.unwrap();
        assert!(c as u32 == buf[0] as u32 && rest.len() == n - 1);
    } else {
        assert!(matches!(r3, Err(nom::Err::Error(_))));
    }
}

/// combinator glue (opt, alt, peek, verify, terminated, delimited, map) over one-byte parsers, buffers of 0..=4 bytes
#[kani::proof]
#[kani::unwind(6)]
fn k_nom_glue() {
    use nom::branch::alt;
    use nom::bytes::complete::{tag, take};
    use nom::combinator::{map, opt, peek, verify};
    use nom::sequence::{delimited, terminated};
    let buf: [u8; 4] = kani::any();
    let n: usize = kani::any();
    kani::assume(n <= 4);
    let i = &buf[..n];
    // opt: never fails on a recoverable error; Some exactly when the inner parser succeeds; input untouched otherwise
    let r: IResult<&[u8], Option<&[u8]>, SE> = opt(tag(","))(i);
    let (rest, o) = r.unwrap();
    if n >= 1 && buf[0] == b',' { assert!(o.is_some() && rest.len() == n - 1); } else { assert!(o.is_none() && rest.len() == n); }
    // alt: first success wins, both failing is a recoverable error
    let r: IResult<&[u8], &[u8], SE> = alt((tag("!"), tag("$")))(i);
    if n >= 1 && (buf[0] == b'!' || buf[0] == b'$') { let (rest, _t) = r.unwrap(); assert!(rest.len() == n - 1); } else { assert!(matches!(r, Err(nom::Err::Error(_)))); }
    // peek: value of the inner parser, input not consumed
    let r: IResult<&[u8], &[u8], SE> = peek(take(2u8))(i);
    if n >= 2 { let (rest, t) = r.unwrap(); assert!(rest.len() == n && t.len() == 2 && t[0] == buf[0]); } else { assert!(r.is_err()); }
    // verify: inner result kept exactly when the predicate holds, recoverable error otherwise
    let r: IResult<&[u8], &[u8], SE> = verify(take(1u8), |b: &[u8]| b[0] < 6)(i);
    if n >= 1 && buf[0] < 6 { let (rest, t) = r.unwrap(); assert!(rest.len() == n - 1 && t[0] == buf[0]); } else { assert!(matches!(r, Err(nom::Err::Error(_)))); }
    // terminated / delimited: sequence, value of the designated component
    let r: IResult<&[u8], &[u8], SE> = terminated(take(1u8), tag("*"))(i);
    if n >= 2 && buf[1] == b'*' { let (rest, t) = r.unwrap(); assert!(rest.len() == n - 2 && t[0] == buf[0]); } else { assert!(r.is_err()); }
    let r: IResult<&[u8], &[u8], SE> = delimited(tag("\\"), take(1u8), tag("\\"))(i);
    if n >= 3 && buf[0] == b'\\' && buf[2] == b'\\' { let (rest, t) = r.unwrap(); assert!(rest.len() == n - 3 && t[0] == buf[1]); } else { assert!(r.is_err()); }
    // map: function applied to the inner value, same rest
    let r: IResult<&[u8], u8, SE> = map(take(1u8), |b: &[u8]| b[0] ^ 0x55)(i);
    if n >= 1 { let (rest, v) = r.unwrap(); assert!(v == buf[0] ^ 0x55 && rest.len() == n - 1); } else { assert!(r.is_err()); }
}

/// bits(): runs the bit parser from bit 0 of the byte input; Ok/Err and value carried over
#[kani::proof]
#[kani::unwind(8)]
fn k_nom_bits() {
    let buf: [u8; 2] = kani::any();
    let n: usize = kani::any();
    kani::assume(n <= 2);
    let r: IResult<&[u8], u8, SE> = nom::bits::bits::<_, _, BE, _, _>(nom::bits::complete::take::<_, u8, _, _>(6usize))(&buf[..n]);
    if n >= 1 { let (_rest, v) = r.unwrap(); assert!(v == buf[0] >> 2); } else { assert!(matches!(r, Err(nom::Err::Error(_)))); }
}
