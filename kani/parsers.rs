// Kani harnesses appended (inside `#[cfg(kani)] mod verif_k`) to src/messages/parsers.rs
use super::*;

/// reference: value of bits [off, off+w) of bytes, MSB first (independent of nom)
fn ref_fld(bytes: &[u8], off: usize, w: usize) -> u64 {
    let mut v: u64 = 0;
    let mut i = 0;
    while i < 40 {
        if i < w {
            let b = off + i;
            let bit = (bytes[b / 8] >> (7 - (b % 8))) & 1;
            v = (v << 1) | bit as u64;
        }
        i += 1;
    }
    v
}

/// C10 / C01: signed_i32 == sign extension of the len-bit field, for every width 1..=31, bit offset 0..7 and content
#[kani::proof]
#[kani::unwind(42)]
fn k_signed_i32() {
    let bytes: [u8; 5] = kani::any();
    let off: usize = kani::any();
    let len: usize = kani::any();
    kani::assume(off < 8);
    kani::assume(len >= 1 && len <= 31);
    let r = signed_i32((&bytes[..], off), len);
    // 5 bytes always suffice for off + len <= 38 bits
    let ((rest, roff), val) = r.unwrap();
    let raw = ref_fld(&bytes, off, len) as i64;
    let expect = if raw >= (1i64 << (len - 1)) { raw - (1i64 << len) } else { raw };
    assert!(val as i64 == expect);
    assert!(-(1i64 << (len - 1)) <= val as i64 && (val as i64) < (1i64 << (len - 1)));
    assert!(roff == (off + len) % 8);
    assert!(rest.len() == 5 - (off + len) / 8);
    kani::cover!(expect < 0);
    kani::cover!(expect > 0);
}

/// C10 / C01: too few bits is an error, never a panic
#[kani::proof]
#[kani::unwind(5)]
fn k_signed_i32_short() {
    let bytes: [u8; 2] = kani::any();
    let off: usize = kani::any();
    let len: usize = kani::any();
    kani::assume(off < 8);
    kani::assume(len >= 1 && len <= 31);
    let r = signed_i32((&bytes[..], off), len);
    assert!(r.is_ok() == (off + len <= 16));
    kani::cover!(r.is_err());
}

/// `format!` on error paths dominates CBMC's cost: replaced by a stub (trusted: formatting terminates, does not panic)
fn stub_fmt(_a: core::fmt::Arguments<'_>) -> crate::lib::std::string::String {
    crate::lib::std::string::String::new()
}

/// C13: the 6-bit ASCII table (values 0-31 -> '@'..'_', 32-63 -> ' '..'?'), over every value a 6-bit field can hold
#[kani::proof]
#[kani::unwind(3)]
fn k_sixbit_to_ascii() {
    let d: u8 = kani::any();
    kani::assume(d < 64);
    let r = sixbit_to_ascii(d);
    let expect = if d < 32 { d + 64 } else { d };
    assert!(r == Ok(expect));
    assert!(expect < 128);
}

/// C04 / C01
#[kani::proof]
#[kani::unwind(3)]
fn k_u8_to_bool() {
    let d: u8 = kani::any();
    kani::assume(d <= 1);
    assert!(u8_to_bool(d) == (d == 1));
}

fn ref_ascii6(v: u8) -> u8 { if v < 32 { v + 64 } else { v } }

/// 6-bit value at bit position q (needs one spare byte after the field) — loop-free so the harness can use a tight unwind
fn ref_six(bytes: &[u8], q: usize) -> u8 {
    let w = ((bytes[q / 8] as u16) << 8) | bytes[q / 8 + 1] as u16;
    ((w >> (10 - (q % 8))) & 0x3f) as u8
}

/// C13 (bounded stand-in by character count N, every bit offset 0..7, all contents): the text is the 6-bit ASCII
/// decoding with leading spaces, then trailing '@', then trailing spaces removed; interior unchanged; cursor advanced
/// by exactly 6*N bits
fn k_text<const N: usize, const BYTES: usize>() {
    let bytes: [u8; BYTES] = kani::any();
    let off: usize = kani::any();
    kani::assume(off < 8);
    let mut chars = [0u8; N];
    let mut i = 0;
    while i < N {
        chars[i] = ref_ascii6(ref_six(&bytes, off + 6 * i));
        i += 1;
    }
    // reference trimming
    let mut a = 0usize;
    while a < N && chars[a] == b' ' { a += 1; }
    let mut b = N;
    while b > a && chars[b - 1] == b'@' { b -= 1; }
    while b > a && chars[b - 1] == b' ' { b -= 1; }
    let r = parse_6bit_ascii((&bytes[..], off), 6 * N);
    let ((rest, roff), text) = r.unwrap();
    assert!(roff == (off + 6 * N) % 8);
    assert!(rest.len() == BYTES - (off + 6 * N) / 8);
    let tb = text.as_bytes();
    assert!(tb.len() == b - a);
    let mut k = 0;
    while k < N {
        if k < b - a {
            assert!(tb[k] == chars[a + k]);
            assert!(tb[k] < 128);
        }
        k += 1;
    }
}
#[kani::proof]
#[kani::unwind(4)]
#[kani::stub(std::fmt::format, stub_fmt)]
fn k_text_1() { k_text::<1, 3>(); }
#[kani::proof]
#[kani::unwind(5)]
#[kani::stub(std::fmt::format, stub_fmt)]
fn k_text_2() { k_text::<2, 4>(); }
#[kani::proof]
#[kani::unwind(6)]
#[kani::stub(std::fmt::format, stub_fmt)]
fn k_text_3() { k_text::<3, 4>(); }

/// C09 / C19: message_type is the top six bits of the first byte; empty input is a recoverable error (lengths 0..=2, all contents;
/// the function only looks at the first byte)
#[kani::proof]
#[kani::unwind(6)]
fn k_message_type() {
    let buf: [u8; 2] = kani::any();
    let n: usize = kani::any();
    kani::assume(n <= 2);
    let r = message_type(&buf[..n]);
    if n == 0 {
        assert!(matches!(r, Err(nom::Err::Error(_))));
    } else {
        let (_rest, t) = r.unwrap();
        assert!(t == buf[0] >> 2);
    }
}
