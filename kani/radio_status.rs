use super::*;

/// loop-free reference: bits [off, off+w) of b (w <= 16), MSB first; b has at least off/8 + 4 bytes
fn fld(b: &[u8], off: usize, w: usize) -> u32 {
    let k = off / 8;
    let win = u32::from_be_bytes([b[k], b[k + 1], b[k + 2], b[k + 3]]);
    (win >> (32 - (off % 8) - w)) & ((1u32 << w) - 1)
}

fn ref_sync(v: u32) -> SyncState {
    match v { 0 => SyncState::UtcDirect, 1 => SyncState::UtcIndirect, 2 => SyncState::BaseStation, _ => SyncState::NumberOfReceivedStations }
}

/// C16 (complete): SOTDMA communication state, every 19-bit value at every bit offset 0..7 (M.1371 3.3.7.2.2; minute = 6-bit reading)
#[kani::proof]
#[kani::unwind(8)]
fn k_radio_sotdma() {
    let bytes: [u8; 8] = kani::any();
    let off: usize = kani::any();
    kani::assume(off < 8);
    let ((_rest, roff), rs) = SotdmaMessage::parse((&bytes[..4], off)).unwrap();
    assert!(roff == (off + 19) % 8);
    let t = fld(&bytes, off + 2, 3);
    match rs {
        RadioStatus::Sotdma(s) => {
            assert!(s.sync_state == ref_sync(fld(&bytes, off, 2)));
            assert!(s.slot_timeout as u32 == t);
            let sub = fld(&bytes, off + 5, 14);
            let expect = match t {
                0 => SubMessage::SlotOffset(sub as i16),
                1 => SubMessage::UtcHourAndMinute(fld(&bytes, off + 5, 5) as u8, fld(&bytes, off + 11, 6) as u8),
                2 | 4 | 6 => SubMessage::SlotNumber(sub as u16),
                _ => SubMessage::ReceivedStations(sub as u16),
            };
            assert!(s.sub_message == expect);
        }
        _ => assert!(false),
    }
}

/// C16 (complete): ITDMA communication state, every 19-bit value at every bit offset
#[kani::proof]
#[kani::unwind(8)]
fn k_radio_itdma() {
    let bytes: [u8; 8] = kani::any();
    let off: usize = kani::any();
    kani::assume(off < 8);
    let ((_rest, roff), rs) = ItdmaMessage::parse((&bytes[..4], off)).unwrap();
    assert!(roff == (off + 19) % 8);
    match rs {
        RadioStatus::Itdma(s) => {
            assert!(s.sync_state == ref_sync(fld(&bytes, off, 2)));
            assert!(s.slot_increment as u32 == fld(&bytes, off + 2, 13));
            assert!(s.num_slots as u32 == fld(&bytes, off + 15, 3));
            assert!(s.keep == (fld(&bytes, off + 18, 1) == 1));
        }
        _ => assert!(false),
    }
}

/// C16 (complete): which scheme a type without selector bit uses; other types are an error
#[kani::proof]
#[kani::unwind(8)]
fn k_radio_dispatch() {
    let bytes: [u8; 4] = kani::any();
    let t: u8 = kani::any();
    let r = parse_radio((&bytes[..], 0), t);
    match t {
        1 | 2 | 4 | 11 => assert!(matches!(r, Ok((_, RadioStatus::Sotdma(_))))),
        3 => assert!(matches!(r, Ok((_, RadioStatus::Itdma(_))))),
        9 => {}
        _ => assert!(r.is_err()),
    }
}
