use super::*;

const TALKERS: [(&[u8; 2], u8); 10] = [(b"AB", 0), (b"AD", 1), (b"AI", 2), (b"AN", 3), (b"AR", 4), (b"AS", 5), (b"AT", 6), (b"AX", 7), (b"BS", 8), (b"SA", 9)];

fn talker_code(t: &TalkerId) -> u8 {
    match t {
        TalkerId::AB => 0, TalkerId::AD => 1, TalkerId::AI => 2, TalkerId::AN => 3, TalkerId::AR => 4, TalkerId::AS => 5,
        TalkerId::AT => 6, TalkerId::AX => 7, TalkerId::BS => 8, TalkerId::SA => 9, TalkerId::Unknown => 255,
    }
}

/// C07: talker table over all inputs of length 0..=3 (the parser only passes length 2)
#[kani::proof]
#[kani::unwind(12)]
fn k_talker_from() {
    let buf: [u8; 3] = kani::any();
    let n: usize = kani::any();
    kani::assume(n <= 3);
    let got = talker_code(&TalkerId::from(&buf[..n]));
    let mut expect = 255u8;
    if n == 2 {
        let mut i = 0;
        while i < 10 {
            if buf[0] == TALKERS[i].0[0] && buf[1] == TALKERS[i].0[1] {
                expect = TALKERS[i].1;
            }
            i += 1;
        }
    }
    assert!(got == expect);
}

/// C07: report type table over all inputs of length 0..=4
#[kani::proof]
#[kani::unwind(3)]
fn k_rtype_from() {
    let buf: [u8; 4] = kani::any();
    let n: usize = kani::any();
    kani::assume(n <= 4);
    let got = AisReportType::from(&buf[..n]);
    let expect = if n == 3 && buf[0] == b'V' && buf[1] == b'D' && buf[2] == b'M' { AisReportType::VDM }
        else if n == 3 && buf[0] == b'V' && buf[1] == b'D' && buf[2] == b'O' { AisReportType::VDO } else { AisReportType::Unknown };
    assert!(got == expect);
}

/// C05 / C17: a fresh parser has no open group
#[kani::proof]
#[kani::unwind(3)]
fn k_parser_default() {
    let p = AisParser::default();
    assert!(p.message_id.is_none() && p.fragment_number == 0 && p.data.len() == 0);
    let q = AisParser::new();
    assert!(q.message_id.is_none() && q.fragment_number == 0 && q.data.len() == 0);
}

/// C02 (bounded stand-in, one concrete length per harness): Ok(expected) iff the XOR of all bytes equals it,
/// otherwise Err(Checksum { expected, found = XOR })
fn k_checksum<const N: usize>() {
    let data: [u8; N] = kani::any();
    let exp: u8 = kani::any();
    let mut x = 0u8;
    let mut i = 0;
    while i < N {
        x ^= data[i];
        i += 1;
    }
    let r = AisParser::check_checksum(&data, exp);
    if x == exp {
        assert!(r == Ok(exp));
    } else {
        assert!(r == Err(Error::Checksum { expected: exp, found: x }));
    }
    kani::cover!(x == exp);
    kani::cover!(x != exp);
}
#[kani::proof]
#[kani::unwind(3)]
fn k_checksum_0() { k_checksum::<0>(); }
#[kani::proof]
#[kani::unwind(4)]
fn k_checksum_2() { k_checksum::<2>(); }
#[kani::proof]
#[kani::unwind(19)]
fn k_checksum_17() { k_checksum::<17>(); }
#[kani::proof]
#[kani::unwind(66)]
fn k_checksum_64() { k_checksum::<64>(); }

/// C07 / C08 (bounded stand-in): decimal field of a sentence: Ok exactly for a non-empty digit run whose value fits a u8
/// (leading zeros allowed), value and rest as expected; inputs of one concrete length, all contents
fn k_digit<const N: usize>() -> (usize, u32) {
    let data: [u8; N] = kani::any();
    let mut d = 0usize;
    let mut val: u32 = 0;
    let mut stop = false;
    let mut i = 0;
    while i < N {
        if !stop && data[i] >= b'0' && data[i] <= b'9' {
            val = val * 10 + (data[i] - b'0') as u32;
            d += 1;
        } else {
            stop = true;
        }
        i += 1;
    }
    let r = parse_u8_digit(&data);
    if d >= 1 && val <= 255 {
        let (rest, v) = r.unwrap();
        assert!(v as u32 == val);
        assert!(rest.len() == N - d);
    } else {
        assert!(matches!(r, Err(nom::Err::Error(_))));
    }
    (d, val)
}
#[kani::proof]
#[kani::unwind(8)]
fn k_digit_0() { k_digit::<0>(); }
#[kani::proof]
#[kani::unwind(8)]
fn k_digit_1() { k_digit::<1>(); }
#[kani::proof]
#[kani::unwind(8)]
fn k_digit_3() { let (d, val) = k_digit::<3>(); kani::cover!(d >= 1 && val <= 255); kani::cover!(d == 3 && val > 255); kani::cover!(d == 0); }
#[kani::proof]
#[kani::unwind(8)]
fn k_digit_4() { let (d, val) = k_digit::<4>(); kani::cover!(d == 4 && val <= 255); kani::cover!(d >= 1 && val > 255); }


