use super::*;

const TALKERS: [(&[u8; 2], u8); 10] = [(b"AB", 0), (b"AD", 1), (b"AI", 2), (b"AN", 3), (b"AR", 4), (b"AS", 5), (b"AT", 6), (b"AX", 7), (b"BS", 8), (b"SA", 9)];

fn talker_code(t: &TalkerId) -> u8 {
    match t {
        TalkerId::AB => 0, TalkerId::AD => 1, TalkerId::AI => 2, TalkerId::AN => 3, TalkerId::AR => 4, TalkerId::AS => 5,
        TalkerId::AT => 6, TalkerId::AX => 7, TalkerId::BS => 8, TalkerId::SA => 9, TalkerId::Unknown => 255,
    }
}

/// C07: talker table over all inputs of length 0..=3 (the parser only passes length 2)
#[kani::proof]
#[kani::unwind(12)]
fn k_talker_from() {
    let buf: [u8; 3] = kani::any();
    let n: usize = kani::any();
    kani::assume(n <= 3);
    let got = talker_code(&TalkerId::from(&buf[..n]));
    let mut expect = 255u8;
    if n == 2 {
        let mut i = 0;
        while i < 10 {
            if buf[0] == TALKERS[i].0[0] && buf[1] == TALKERS[i].0[1] {
                expect = TALKERS[i].1;
            }
            i += 1;
        }
    }
    assert!(got == expect);
}

/// C07: report type table over all inputs of length 0..=4
#[kani::proof]
#[kani::unwind(3)]
fn k_rtype_from() {
    let buf: [u8; 4] = kani::any();
    let n: usize = kani::any();
    kani::assume(n <= 4);
    let got = AisReportType::from(&buf[..n]);
    let expect = if n == 3 && buf[0] == b'V' && buf[1] == b'D' && buf[2] == b'M' { AisReportType::VDM }
        else if n == 3 && buf[0] == b'V' && buf[1] == b'D' && buf[2] == b'O' { AisReportType::VDO } else { AisReportType::Unknown };
    assert!(got == expect);
}

/// C05 / C17: a fresh parser has no open group
#[kani::proof]
#[kani::unwind(3)]
fn k_parser_default() {
    let p = AisParser::default();
    assert!(p.message_id.is_none() && p.fragment_number == 0 && p.data.len() == 0);
    let q = AisParser::new();
    assert!(q.message_id.is_none() && q.fragment_number == 0 && q.data.len() == 0);
}

/// C02 (bounded stand-in, one concrete length per harness): Ok(expected) iff the XOR of all bytes equals it,
/// otherwise Err(Checksum { expected, found = XOR })
fn k_checksum<const N: usize>() {
    let data: [u8; N] = kani::any();
    let exp: u8 = kani::any();
    let mut x = 0u8;
    let mut i = 0;
    while i < N {
        x ^= data[i];
        i += 1;
    }
    let r = AisParser::check_checksum(&data, exp);
    if x == exp {
        assert!(r == Ok(exp));
    } else {
        assert!(r == Err(Error::Checksum { expected: exp, found: x }));
    }
    kani::cover!(x == exp);
    kani::cover!(x != exp);
}
#[kani::proof]
#[kani::unwind(3)]
fn k_checksum_0() { k_checksum::<0>(); }
#[kani::proof]
#[kani::unwind(4)]
fn k_checksum_2() { k_checksum::<2>(); }
#[kani::proof]
#[kani::unwind(19)]
fn k_checksum_17() { k_checksum::<17>(); }
#[kani::proof]
#[kani::unwind(66)]
fn k_checksum_64() { k_checksum::<64>(); }

/// C07 / C08 (bounded stand-in): decimal field of a sentence: Ok exactly for a non-empty digit run whose value fits a u8
/// (leading zeros allowed), value and rest as expected; inputs of one concrete length, all contents
fn k_digit<const N: usize>() -> (usize, u32) {
    let data: [u8; N] = kani::any();
    let mut d = 0usize;
    let mut val: u32 = 0;
    let mut stop = false;
    let mut i = 0;
    while i < N {
        if !stop && data[i] >= b'0' && data[i] <= b'9' {
            val = val * 10 + (data[i] - b'0') as u32;
            d += 1;
        } else {
            stop = true;
        }
        i += 1;
    }
    let r = parse_u8_digit(&data);
    if d >= 1 && val <= 255 {
        let (rest, v) = r.unwrap();
        assert!(v as u32 == val);
        assert!(rest.len() == N - d);
    } else {
        assert!(matches!(r, Err(nom::Err::Error(_))));
    }
    (d, val)
}
#[kani::proof]
#[kani::unwind(8)]
fn k_digit_0() { k_digit::<0>(); }
#[kani::proof]
#[kani::unwind(8)]
fn k_digit_1() { k_digit::<1>(); }
#[kani::proof]
#[kani::unwind(8)]
fn k_digit_3() { let (d, val) = k_digit::<3>(); kani::cover!(d >= 1 && val <= 255); kani::cover!(d == 3 && val > 255); kani::cover!(d == 0); }
#[kani::proof]
#[kani::unwind(8)]
fn k_digit_4() { let (d, val) = k_digit::<4>(); kani::cover!(d == 4 && val <= 255); kani::cover!(d >= 1 && val > 255); }

// ---------------------------------------------------------------------------------------------------------------
// Contract of AisParser::parse against the reassembly transition function (C05 / C06 / C17 / C02 gate placement),
// as a Kani harness: fallback when Verus cannot decide the function, and a source of concrete counterexamples.
// parse_nmea_sentence is replaced by a stub that returns ANY outcome its contract allows (any field values, a payload
// of 0..=2 bytes, any checksum); the parser starts in ANY state with a buffer of 0..=2 bytes.  Bounded by those sizes.
static mut K_LAST: Option<(bool, u8, u8, Option<u8>, [u8; 2], usize, u8, u8)> = None;   // ok, n, k, id, payload, plen, xor(raw), checksum

fn stub_nmea<'a>(data: &'a [u8]) -> IResult<&'a [u8], (&'a [u8], AisSentence, u8)> {
    if kani::any() {
        unsafe { K_LAST = Some((false, 0, 0, None, [0; 2], 0, 0, 0)); }
        return Err(nom::Err::Error(nom::error::Error::new(data, nom::error::ErrorKind::Tag)));
    }
    let rawlen: usize = kani::any();
    kani::assume(rawlen <= data.len() && rawlen <= 2);
    let pl: [u8; 2] = kani::any();
    let plen: usize = kani::any();
    kani::assume(plen >= 1 && plen <= 2);
    let mut payload = AisRawData::default();
    payload.push(pl[0]);
    if plen == 2 {
        payload.push(pl[1]);
    }
    let n: u8 = kani::any();
    let k: u8 = kani::any();
    let id: Option<u8> = kani::any();
    let ck: u8 = kani::any();
    let mut x = 0u8;
    if rawlen >= 1 { x ^= data[0]; }
    if rawlen >= 2 { x ^= data[1]; }
    unsafe { K_LAST = Some((true, n, k, id, pl, plen, x, ck)); }
    let s = AisSentence {
        talker_id: TalkerId::AI, report_type: AisReportType::VDM, num_fragments: n, fragment_number: k, message_id: id, channel: None,
        data: payload, fill_bit_count: 0, message_type: 0, message: None,
    };
    Ok((&data[data.len()..], (&data[..rawlen], s, ck)))
}

#[kani::proof]
#[kani::unwind(6)]
#[kani::stub(parse_nmea_sentence, stub_nmea)]
#[kani::stub(std::fmt::format, stub_fmt_s)]
fn k_parse_step() {
    // any parser state
    let pre_id: Option<u8> = kani::any();
    let pre_num: u8 = kani::any();
    let pre_buf: [u8; 2] = kani::any();
    let pre_len: usize = kani::any();
    kani::assume(pre_len <= 2);
    let mut p = AisParser { message_id: pre_id, fragment_number: pre_num, data: AisRawData::default() };
    if pre_len >= 1 { p.data.push(pre_buf[0]); }
    if pre_len >= 2 { p.data.push(pre_buf[1]); }
    let line: [u8; 2] = kani::any();
    let r = p.parse(&line, false);
    let (ok, n, k, id, pl, plen, x, ck) = unsafe { K_LAST.unwrap() };
    // ---- the transition function of the property statements
    let same_state = p.message_id == pre_id && p.fragment_number == pre_num && p.data.len() == pre_len
        && (pre_len < 1 || p.data[0] == pre_buf[0]) && (pre_len < 2 || p.data[1] == pre_buf[1]);
    if !ok {
        assert!(r.is_err() && same_state);                                   // malformed line: rejected, no trace
    } else if x != ck {
        assert!(r == Err(Error::Checksum { expected: ck, found: x }));       // checksum gate before anything else
        assert!(same_state);
    } else if k < n {
        if k == 1 {
            // opens a group, dropping whatever was open
            assert!(matches!(r, Ok(AisFragments::Incomplete(_))));
            assert!(p.message_id == id && p.fragment_number == 1 && p.data.len() == plen && p.data[0] == pl[0] && (plen < 2 || p.data[1] == pl[1]));
        } else if pre_id == id && k as u16 == pre_num as u16 + 1 {
            assert!(matches!(r, Ok(AisFragments::Incomplete(_))));
            assert!(p.message_id == pre_id && p.fragment_number == k && p.data.len() == pre_len + plen);
            assert!((pre_len < 1 || p.data[0] == pre_buf[0]) && (pre_len < 2 || p.data[1] == pre_buf[1]) && p.data[pre_len] == pl[0]);
        } else {
            assert!(r.is_err() && same_state);                               // sequencing rejection leaves no trace
        }
        if let Ok(AisFragments::Incomplete(s)) = &r {
            assert!(s.num_fragments == n && s.fragment_number == k && s.message_id == id && s.data.len() == plen && s.data[0] == pl[0]);
        }
    } else if n != 1 {
        if pre_id == id && k as u16 == pre_num as u16 + 1 {
            // last fragment: exact concatenation delivered, group closed
            match &r {
                Ok(AisFragments::Complete(s)) => {
                    assert!(s.data.len() == pre_len + plen);
                    assert!((pre_len < 1 || s.data[0] == pre_buf[0]) && (pre_len < 2 || s.data[1] == pre_buf[1]) && s.data[pre_len] == pl[0]);
                    assert!(plen < 2 || s.data[pre_len + 1] == pl[1]);
                    assert!(s.num_fragments == n && s.fragment_number == k && s.message_id == id);
                }
                _ => assert!(false),
            }
            assert!(p.fragment_number == 0 && p.data.len() == 0);
        } else {
            assert!(r.is_err() && same_state);
        }
    } else {
        // unfragmented: delivered as is, no trace
        match &r {
            Ok(AisFragments::Complete(s)) => assert!(s.data.len() == plen && s.data[0] == pl[0] && s.num_fragments == 1 && s.fragment_number == k),
            _ => assert!(false),
        }
        assert!(same_state);
    }
    kani::cover!(ok && x == ck && k < n && k == 1);
    kani::cover!(ok && x == ck && k >= n && n != 1 && r.is_ok());
    kani::cover!(ok && x != ck);
}

fn stub_fmt_s(_a: core::fmt::Arguments<'_>) -> crate::lib::std::string::String {
    crate::lib::std::string::String::new()
}
