// Shim validation for the byte-level scanners, run in the alloc configuration (`--no-default-features --features alloc`):
// under `std` nom's memchr reaches CPU-feature detection (inline assembly), which Kani cannot execute.
use nom::IResult;
type SE<'a> = nom::error::Error<&'a [u8]>;

/// bytes::complete::take_until(",") on 0..=4 bytes: Ok exactly when a ',' exists; value = prefix before the first one; rest starts at it
#[kani::proof]
#[kani::unwind(8)]
fn k_nom_take_until() {
    let buf: [u8; 4] = kani::any();
    let n: usize = kani::any();
    kani::assume(n <= 4);
    let r: IResult<&[u8], &[u8], SE> = nom::bytes::complete::take_until(",")(&buf[..n]);
    let mut k = n;
    let mut i = 0;
    while i < 4 {
        if i < n && k == n && buf[i] == b',' { k = i; }
        i += 1;
    }
    if k < n {
        let (rest, v) = r.unwrap();
        assert!(v.len() == k && rest.len() == n - k && rest[0] == b',');
    } else {
        assert!(matches!(r, Err(nom::Err::Error(_))));
    }
}

/// character::complete::digit1 on 0..=4 bytes: the leading run of ASCII digits, at least one
#[kani::proof]
#[kani::unwind(8)]
fn k_nom_digit1() {
    let buf: [u8; 4] = kani::any();
    let n: usize = kani::any();
    kani::assume(n <= 4);
    let r: IResult<&[u8], &[u8], SE> = nom::character::complete::digit1(&buf[..n]);
    let mut d = 0;
    let mut stop = false;
    let mut i = 0;
    while i < 4 {
        if i < n && !stop && buf[i] >= b'0' && buf[i] <= b'9' { d += 1; } else { stop = true; }
        i += 1;
    }
    if d >= 1 {
        let (rest, v) = r.unwrap();
        assert!(v.len() == d && rest.len() == n - d);
    } else {
        assert!(matches!(r, Err(nom::Err::Error(_))));
    }
}

