#!/usr/bin/env python3
"""writes /verif/MANIFEST.json from the table below"""
import json
import os

ROOT = os.path.dirname(os.path.dirname(os.path.abspath(__file__)))

V = 'Verus contracts on the mechanically extracted real source (nom replaced by a contract shim)'
NOTE_COMMON = ('Trusted: Verus/Z3, vstd; the nom 7.1.3 contract shim (assumed in Verus, validated by Kani harnesses on bounded domains); '
               'usize is 64 bit and inputs are shorter than 2^28 bytes; functions marked external_body in Verus are Kani obligations. '
               'Message-level properties (C03, C04, C09-C16) are additionally stated on AisParser::parse (parse_msg_Cxx: the delivered message is the decoding of the transmitted payload). '
               'Every run re-extracts /repo/src, re-injects the contracts (lost anchor = exit 2) and lists all assumptions in the evidence file.')

CHECKS = {
    'C01': ('proof', 'Every function reachable from AisParser::parse, messages::unarmor and messages::parse is verified by Verus for absence of panics, '
            'arithmetic overflow, out-of-bounds indexing, violated callee preconditions (unreachable!() arms carry `requires`) and for loop termination, for all inputs '
            'and all parser states (std build); leaves outside Verus (signed_i32, RateOfTurn::parse, Dte::from, sixbit_to_ascii, TalkerId/AisReportType::from) by Kani over '
            'their full domains; check_checksum / parse_u8_digit / parse_6bit_ascii by Kani as bounded stand-ins.', '4 C01'),
    'C02': ('proof', 'parse_nmea_sentence is proved to return exactly the byte range between the start delimiter and the first following * and the hex value after the '
            'terminating *; AisParser::parse is proved to return Err(Checksum{expected, found}) with unchanged state exactly when xor(range) differs; check_checksum itself is a '
            'Kani bounded stand-in (<= 64 bytes); that Error::Checksum has a single construction site is checked syntactically.', '4 C02'),
    'C03': ('proof', 'Verus proves unarmor for every length, content and fill count 0..=5: Ok exactly for strings over the armoring alphabet; result length ceil(6n/8); '
            'every output bit (MSB first) equals the corresponding bit of the concatenated 6-bit values, with the last fill bits of those 6n bits and every bit beyond 6n zero '
            '(loop invariant `packed` + bit-vector lemmas for the four shift phases and the two masking cases); index / shift safety and termination. Kani harnesses per concrete '
            'length are kept as an independent bounded cross-check.', '0.2 / 4 C03'),
    'C04': ('proof', 'One Verus postcondition per field per message type (offsets/widths from ITU-R M.1371-5), universally quantified over payload contents and length, carried '
            'through parse_base -> <T as AisMessageType>::parse -> messages::parse.', '4 C04'),
    'C05': ('proof', 'AisParser::parse is proved against an abstract transition function `step` written from the property (all parser states, all lines); history-level lemmas '
            '(reassembly of in-order fragments, interleaved rejected/unfragmented lines) are proved over `step` by induction; From<AisFragments> conversions proved directly.', '4 C05'),
    'C06': ('proof', 'Reject side of `step` (continuing fragment accepted only if it directly continues the open group; group closed on delivery) proved for AisParser::parse in every state; '
            'history lemma delivered_is_group over `step`.', '4 C06'),
    'C07': ('proof', 'Field equations of parse_ais_sentence / parse_nmea_sentence / AisParser::parse at the grammar positions, for all lines; talker / report-type tables by Kani over '
            'all 2- and 3-byte inputs; decimal fields by Kani (bounded stand-in, <= 4 digits).', '4 C07'),
    'C08': ('proof', 'parse_nmea_sentence(line) is Ok <==> n_ok(line) and parse_ais_sentence is Ok <==> g_ok, both directions, for all byte strings, where n_ok/g_ok are the '
            'recognisers written from the property statement.', '4 C08'),
    'C09': ('proof', 'messages::parse: variant per 6-bit type (table from the property), own type field equals the six bits, every other type and the empty payload are errors; '
            'each arm composed with the per-type postconditions; at the entry point AisParser::parse a sentence delivered with decoding on carries Some(message) of the kind its own payload determines (an unsupported type is an error, never `message: None`).', '0.2 / 4 C09'),
    'C10': ('proof', 'Per type: coordinate = scale(sext(fld(off, w))) with offsets/widths from M.1371; the f32 leaves are proved to compute exactly IEEE (raw as f32) / 600000 (/600, /10, identity); '
            'signed_i32 sign extension by Kani over all widths 1..=31, offsets, contents.', '4 C10'),
    'C11': ('proof', 'Per optional field: absent exactly for the sentinel of the property\'s list, present with the transmitted value otherwise, for all raw values and all message '
            'types carrying the field; RateOfTurn::parse by Kani over all 256 codes.', '4 C11'),
    'C12': ('proof', 'Every enum parse function equals a table written from M.1371 over its whole u8 domain, injectivity and ship-type round-trip lemmas, and each message type links '
            'the field to the table; Dte::from by Kani.', '4 C12'),
    'C13': ('proof', 'Verus proves position, width and character count of every text field for all message lengths (through the assumed contract of parse_6bit_ascii); the contract '
            'of parse_6bit_ascii itself (ascii6 mapping + trim order) is a Kani bounded stand-in by character count; sixbit_to_ascii by Kani over all 256 inputs.', '4 C13'),
    'C14': ('proof', 'Presence conditions on 8*len in the per-type postconditions (list lengths, second station / destination, part A spare, truncated type 5, text lengths, '
            'Ok <==> mandatory part fits) for all lengths.', '4 C14'),
    'C15': ('proof', 'Types 6/8/17: after the byte-aligned header the returned bytes are exactly orig[h..] (sequence equality), for all lengths and contents; DAC / FI (types 6, 8) and the type 17 correction header fields at their positions; at the entry point AisParser::parse the decoded payload is the transmitted one (accepted fragments are buffered exactly, the delivered payload is this group\'s concatenation).', '0.2 / 4 C15'),
    'C16': ('proof', 'SOTDMA / ITDMA contracts from M.1371 on SotdmaMessage/ItdmaMessage/SubMessage::parse and placement at bits 149..167 (selector 148) in the seven carrying types.', '4 C16'),
    'C17': ('proof', 'Frame clauses of the parse contract (rejected lines and unfragmented sentences leave the abstract state unchanged) and lemma erase over `step`.', '4 C17'),
    'C18': ('proof', 'Common specification: every contract of every other property is discharged by Verus under the std configuration and again under the alloc '
            'configuration (same extracted text, cfg-resolved), so the two builds agree on acceptance, error category and every field the contracts determine (an obligation refuted under exactly one configuration is the violation; refuted under both it belongs to its own property and C18 is undecided). The no-allocator build '
            'is covered only by Kani bounded stand-ins on the real heapless code (unarmor against the same reference for n in {0,3,5}; 2-character text; the hand-written many_m_n::<..,4>(1, ..) against the contract assumed for nom\'s; 21-character text and a full 384-byte reassembly buffer are errors, not panics; 9 per-type layout harnesses under --no-default-features); '
            'the 119/120-byte binary capacity edge is NOT checked (harness does not finish); no Verus run of the no-allocator configuration (DESIGN 0.2 says why).', '0.2 / 4 C18'),
    'C19': ('proof', 'One Verus clause on parse_ais_sentence / parse_nmea_sentence: message_type == sixbit(first payload byte); refuted on the unchanged tree and listed as known finding D4 '
            'with its signature obligation.', '4 C19'),
}


def main():
    props = [json.loads(l) for l in open(os.path.join(ROOT, 'properties.jsonl'))]
    na_reasons = {
        'C20': 'no contract within reach can express or decide it: the property is about effects on stdin/stdout/stderr, record ordering and the exit status of a process, for which neither Verus nor Kani has a specification language here; the one contract-expressible fragment (the per-line handler returns for every line content) was tried as a Kani harness with AisParser::parse stubbed and does not finish in CBMC (println!/Debug formatting machinery), so nothing is claimed. Observation outside any check: from_utf8(line).unwrap() in src/bin/aisparser.rs panics on a line that is not valid UTF-8.',
    }
    checks = []
    for p in props:
        pid = p['id']
        if pid not in CHECKS:
            continue
        cat, text, ref = CHECKS[pid]
        checks.append({
            'property_id': pid,
            'quick_cmd': './check %s --tier quick' % pid,
            'thorough_cmd': './check %s --tier thorough' % pid,
            'evidence_file': '/verif/evidence/%s.json' % pid,
            'replay_cmd_template': './check %s --replay {path}' % pid,
            'engine': 'verus+kani',
            'level_claimed': {'category': cat, 'text': text, 'design_ref': 'DESIGN.md section ' + ref},
            'level_note': NOTE_COMMON,
            'technique': 'contract-based deductive verification: ' + V + '; Kani function-level harnesses for leaves',
        })
    m = {
        'version': 1,
        'setup_cmd': 'true',
        'hooks': {'guard': 'none', 'enable': 'no hooks in /repo: contracts are injected (ghost text only) into a scratch extraction of the working tree on every run; Kani harnesses are appended to a scratch copy',
                  'baseline_off_cmd': 'cd /repo && cargo test --workspace --no-fail-fast --offline', 'source_commits': [], 'add_only': True},
        'engines': [
            {'name': 'verus', 'path': '/verif/check', 'serves_properties': sorted(CHECKS), 'kind_free_text': 'Verus 0.2026.09.13 on /repo/src extracted into one crate + contract shim for nom'},
            {'name': 'kani', 'path': '/verif/lib/kleaves.py', 'serves_properties': ['C01', 'C02', 'C03', 'C04', 'C05', 'C06', 'C07', 'C08', 'C09', 'C10', 'C11', 'C12', 'C13', 'C14', 'C16', 'C17', 'C18', 'C19'], 'kind_free_text': 'Kani 0.68 harnesses appended to a scratch copy of the crate'},
        ],
        'checks': checks,
        'notes': 'exit 0 held / exit 1 VIOLATION / exit 2 undecided (lost anchor, rlimit, tool failure, vacuity canary). Known findings: /verif/known-findings.json.',
        'not_applicable': [{'property_id': k, 'reason': v} for k, v in na_reasons.items() if k not in CHECKS],
    }
    json.dump(m, open(os.path.join(ROOT, 'MANIFEST.json'), 'w'), indent=1)


if __name__ == '__main__':
    main()
