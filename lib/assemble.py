"""Build the single-file Verus crate from /repo's working tree (every run).

 lib.rs is the root; every `mod x;` declaration is replaced by `mod x { use vstd::prelude::*; <file> }`
 (the file text itself goes through strip + ghost injection, see inject.py).  The result is wrapped
 in one `verus!{}`.  A line map (generated line -> repository file / injected / spec) is returned
 for error attribution.
"""
import os
import re
from rsrc import strip_tests_and_innerdocs, code_mask, LostAnchor
from inject import FileContracts

MOD_DECL = re.compile(r'^([ \t]*)(pub(?:\([a-z]+\))?\s+)?mod\s+([A-Za-z_]\w*)\s*;', re.M)


class Assembled:
    def __init__(self):
        self.text = ''
        self.files = {}        # relpath -> FileContracts
        self.dropped = {}      # relpath -> [(kind, text)]
        self.linemap = []      # per generated line: (relpath or '<spec>' or '<wrap>', 'repo'|'injected')
        self.contracted = []
        self.lost = []
        self.auto_external = []
        self.lemmas = []
        self.assumed = []
        self.edits = []        # (relpath, kind, note, new_text)


def _render_file(asm, src_root, relpath, apply_contracts, depth=0):
    """returns rendered text of file relpath with child modules inlined."""
    path = os.path.join(src_root, relpath)
    with open(path, encoding='utf-8') as fh:
        raw = fh.read()
    stripped, dropped = strip_tests_and_innerdocs(raw)
    asm.dropped[relpath] = dropped
    fc = FileContracts(relpath, stripped)
    asm.files[relpath] = fc
    apply_contracts(relpath, fc)
    # child modules
    mask = fc.mask
    base_dir = os.path.dirname(relpath)
    stem = os.path.splitext(os.path.basename(relpath))[0]
    child_dir = base_dir if stem in ('lib', 'mod', 'main') else os.path.join(base_dir, stem)
    children = []
    for m in MOD_DECL.finditer(stripped):
        if not mask[m.start(3)]:
            continue
        name = m.group(3)
        cand = [os.path.join(child_dir, name + '.rs'), os.path.join(child_dir, name, 'mod.rs')]
        child = next((c for c in cand if os.path.exists(os.path.join(src_root, c))), None)
        if child is None:
            raise LostAnchor('%s: module file for `mod %s;` not found' % (relpath, name))
        children.append((m, name, child))
    for (m, name, child) in children:
        body = _render_file(asm, src_root, child, apply_contracts, depth + 1)
        vis = m.group(2) or ''
        marker = '\x00FILE:%s\x00' % child
        new = '%s%smod %s {\n%suse vstd::prelude::*;\n%s\n%s\x00END:%s\x00\n%s}' % (m.group(1), vis, name, m.group(1), marker, body, child, m.group(1))
        fc.ed.replace(m.start(), m.end(), new, 'wrap', 'mod %s' % name)
    text, spans, pro_len = fc.render()
    asm.contracted.extend(fc.contracted)
    asm.lost.extend(fc.lost)
    asm.auto_external.extend(fc.auto_external)
    for (nm, tags) in fc.lemmas:
        asm.lemmas.append(dict(relpath=relpath, name=nm, tags=tags))
    asm.assumed.extend(fc.assumed)
    for (s, e, new, kind, note) in fc.ed.edits:
        if kind != 'wrap':
            asm.edits.append((relpath, kind, note, new))
    return text


def build(src_root, apply_contracts, spec_text, header_extra=''):
    asm = Assembled()
    root = _render_file(asm, src_root, 'lib.rs', apply_contracts)
    body = '\x00FILE:lib.rs\x00\n' + root + '\n\x00END:lib.rs\x00\n'
    head = ('#![allow(unused_imports, dead_code, unused_variables, unused_mut, unreachable_patterns, non_snake_case, unused_parens, unused_braces)]\n'
            + header_extra + 'use vstd::prelude::*;\nverus! {\n// machine model: 64-bit usize (stated assumption)\nglobal size_of usize == 8;\n')
    full = head + body + '\npub mod vspec {\nuse vstd::prelude::*;\n' + spec_text + '\n}\n} // verus!\n'
    # resolve file markers into a line map and remove them
    out_lines = []
    stack = ['<wrap>']
    for line in full.split('\n'):
        mm = re.match(r'^\x00(FILE|END):(.*)\x00$', line.strip())
        if mm:
            if mm.group(1) == 'FILE':
                stack.append(mm.group(2))
            else:
                stack.pop()
            continue
        if '\x00' in line:
            # marker sharing a line with text (should not happen)
            line = re.sub(r'\x00(FILE|END):[^\x00]*\x00', '', line)
        out_lines.append(line)
        asm.linemap.append(stack[-1])
    asm.text = '\n'.join(out_lines)
    return asm
