"""Run Verus on the generated crate and turn its output into per-function / per-clause verdicts."""
import hashlib
import json
import os
import re
import subprocess
import time

from rsrc import code_mask, find_fns, find_impl_blocks

VERUS = 'verus'
SHIM_SRC = '/verif/shims/nom.rs'

ERR_UNDECIDED = ('Resource limit', 'rlimit', 'timed out', 'timeout', 'internal error', 'panicked', 'not supported',
                 'does not yet support', 'ill-typed', 'Verus Internal Error')
ERR_REFUTED = ('postcondition not satisfied', 'unable to prove post-condition of closure', 'precondition not satisfied',
               'possible arithmetic underflow/overflow', 'possible division by zero', 'assertion failed', 'invariant not satisfied',
               "fails to satisfy `callee.requires(args)`", 'possible bit shift underflow/overflow', 'loop invariant',
               'decreases not satisfied', 'unreachable', 'index out of bounds', 'cannot show', 'could not prove termination',
               'recommendation not met')


def sha(*parts):
    h = hashlib.sha256()
    for p in parts:
        h.update(p.encode() if isinstance(p, str) else p)
        h.update(b'\0')
    return h.hexdigest()


def build_shim(workdir, log):
    """compile the nom contract shim as its own Verus crate (libnom.rlib + nom.vir)"""
    t = time.time()
    p = subprocess.run([VERUS, SHIM_SRC, '--crate-type=lib', '--crate-name=nom', '--export', 'nom.vir', '--compile', '-o', 'libnom.rlib',
                        '--triggers-mode', 'silent'], cwd=workdir, capture_output=True, text=True)
    ok = 'verified, 0 errors' in p.stdout and os.path.exists(os.path.join(workdir, 'libnom.rlib'))
    log('shim: %s in %.1fs' % ('ok' if ok else 'FAILED', time.time() - t))
    if not ok:
        log(p.stdout[-2000:] + p.stderr[-4000:])
    return ok


class FnIndex:
    """function spans of the generated text, for mapping verifier lines back to contracts"""
    def __init__(self, text, linemap):
        self.text = text
        self.linemap = linemap
        self.mask = code_mask(text)
        self.fns = find_fns(text, self.mask)
        self.impls = find_impl_blocks(text, self.mask)
        self.line_starts = [0]
        for i, c in enumerate(text):
            if c == '\n':
                self.line_starts.append(i + 1)

    def pos(self, line, col=1):
        return self.line_starts[line - 1] + col - 1

    def line_of(self, pos):
        import bisect
        return bisect.bisect_right(self.line_starts, pos)

    def enclosing(self, line):
        """(relpath, impl_header or None, fn name) of the innermost fn containing `line`"""
        p = self.pos(line)
        best = None
        for f in self.fns:
            if f.kw <= p <= f.body_close or (self.line_of(f.kw) <= line <= self.line_of(f.body_close)):
                if best is None or f.kw >= best.kw:
                    best = f
        if best is None:
            return (self.linemap[line - 1] if line - 1 < len(self.linemap) else '?', None, None)
        hdr = None
        for (h, ob, cb) in self.impls:
            if ob < best.kw < cb:
                hdr = h
        return (self.linemap[self.line_of(best.kw) - 1], hdr, best.name)


def parse_errors(stderr, idx):
    """split rustc-style diagnostics; return list of dict(kind, status, line, fn, clause_lines, text)"""
    blocks = re.split(r'\n(?=error|warning|note: )', '\n' + stderr)
    out = []
    for b in blocks:
        b = b.strip('\n')
        if not b.startswith('error'):
            continue
        head = b.split('\n', 1)[0]
        if head.startswith('error: aborting due to') or 'previous error' in head:
            continue
        m = re.search(r'--> ais_v\.rs:(\d+):(\d+)', b)
        line = int(m.group(1)) if m else None
        status = 'other'
        if any(k in head for k in ERR_UNDECIDED):
            status = 'undecided'
        elif any(k in head for k in ERR_REFUTED):
            status = 'refuted'
        # labelled secondary spans:  "1234 |   text"  followed by "|   ^^^^ failed this postcondition"
        clause_lines = []
        lines = b.split('\n')
        for i, l in enumerate(lines):
            if 'failed this postcondition' in l or 'failed precondition' in l:
                # walk back to the closest numbered source line
                for j in range(i, -1, -1):
                    mm = re.match(r'\s*(\d+) \|', lines[j])
                    if mm:
                        clause_lines.append(int(mm.group(1)))
                        break
        fn = idx.enclosing(line) if line else ('?', None, None)
        out.append(dict(kind=head, status=status, line=line, fn=fn, clause_lines=clause_lines, text=b[:3000]))
    return out


def run_verus(workdir, crate_text, cfgs, log, rlimit=100, cache_dir=None, extra_args=(), threads=None):
    """returns dict(results=.., stderr=.., json=.., wall_s=.., cached=bool)"""
    path = os.path.join(workdir, 'ais_v.rs')
    with open(path, 'w') as fh:
        fh.write(crate_text)
    args = [VERUS, 'ais_v.rs', '--crate-type=lib', '--extern', 'nom=libnom.rlib', '--import', 'nom=nom.vir', '-L', '.',
            '--triggers-mode', 'silent', '--multiple-errors', '50', '--rlimit', str(rlimit), '--output-json', '--time'] + list(extra_args)
    for c in cfgs:
        args += ['--cfg', c]
    if threads:
        args += ['--num-threads', str(threads)]
    key = sha(crate_text, open(SHIM_SRC).read(), ' '.join(args), subprocess.run([VERUS, '--version'], capture_output=True, text=True).stdout)
    if cache_dir and not os.environ.get('VERIF_NO_CACHE'):
        cp = os.path.join(cache_dir, 'verus-' + key + '.json')
        if os.path.exists(cp):
            with open(cp) as fh:
                d = json.load(fh)
            d['cached'] = True
            log('verus: cached result (%s)' % key[:12])
            return d
    t = time.time()
    # own session + wall-clock limit: a diverging query (rlimit is not a time limit) must end as "undecided", and the z3 children must go
    import signal
    limit = int(os.environ.get('VERIF_VERUS_TIMEOUT', '2400'))
    pr = subprocess.Popen(args, cwd=workdir, stdout=subprocess.PIPE, stderr=subprocess.PIPE, text=True, start_new_session=True)
    try:
        so, se = pr.communicate(timeout=limit)
    except subprocess.TimeoutExpired:
        try:
            os.killpg(pr.pid, signal.SIGKILL)
        except Exception:
            pass
        so, se = pr.communicate()
        se = (se or '') + '\nerror: verus timed out after %d s (killed)\n' % limit
        so = ''

    class _P:
        pass
    p = _P()
    p.stdout, p.stderr, p.returncode = so, se, pr.returncode
    wall = time.time() - t
    js = None
    try:
        js = json.loads(p.stdout)
    except Exception:
        pass
    d = dict(stdout=p.stdout if js is None else '', stderr=p.stderr, json=js, wall_s=wall, returncode=p.returncode, cached=False, key=key, cmd=' '.join(args))
    log('verus: exit %d in %.1fs' % (p.returncode, wall))
    if cache_dir and js is not None:
        os.makedirs(cache_dir, exist_ok=True)
        with open(os.path.join(cache_dir, 'verus-' + key + '.json'), 'w') as fh:
            json.dump(d, fh)
    return d


def function_breakdown(js):
    """{verus function path: dict(success, time_ms, rlimit)}"""
    out = {}
    if not js:
        return out
    try:
        for m in js['times-ms']['smt']['smt-run-module-times']:
            for f in m.get('function-breakdown', []):
                out[f['function']] = dict(success=f['success'], time_ms=f.get('time', 0), rlimit=f.get('rlimit', 0), mode=f.get('mode:', ''))
    except Exception:
        pass
    return out
