"""Ghost-only injection of contracts into one repository source file.

A `FileContracts` object is built per source file by the modules under /verif/contracts.  Every
operation is positional on the *stripped working-tree text* (tests / inner docs removed) and is
recorded, so the result can be mapped back line by line and the edits can be undone exactly.

Edit kinds (the only things ever written into repository text):
  sig       `-> T` becomes `-> (name: T)`, followed by requires / ensures / decreases clauses
  closure   a closure header gets parameter / return types, a result name and requires / ensures;
            an expression-bodied closure additionally gets braces around its (unchanged) body
  loop      `for x in e {` becomes `for x in it: e invariant .. {`  (+ decreases for while)
  proof     inserted `proof { .. }` / `assert(..)` statements
  attr      inserted `#[verifier::..]` attributes
  epilogue  spec functions / proof functions appended after the file text (same module)
  verus-syntax  the elided lifetime of a `const` / `static` item written out as `'static` (what the language rule says it is)
"""
import re
from rsrc import Edits, LostAnchor, find_fns, find_impl_blocks, find_code, match_bracket


def _clauses(kw, items, indent):
    if not items:
        return ''
    body = ''.join('%s    %s,\n' % (indent, it) for it in items)
    return '%s%s\n%s' % (indent, kw, body)


def param_names(text, f):
    """names of the parameters of fn f (self excluded), in order"""
    inner = text[f.params_open + 1:f.params_close]
    parts, depth, cur = [], 0, ''
    for ch in inner:
        if ch in '([{<':
            depth += 1
        elif ch in ')]}>':
            depth -= 1
        if ch == ',' and depth == 0:
            parts.append(cur); cur = ''
        else:
            cur += ch
    if cur.strip():
        parts.append(cur)
    names = []
    for p_ in parts:
        head = p_.split(':', 1)[0].strip()
        head = re.sub(r'^(mut|ref)\s+', '', head)
        if re.fullmatch(r'&?\s*(\'\w+\s+)?(mut\s+)?self', head):
            continue
        names.append(head if re.fullmatch(r'[A-Za-z_]\w*', head) else None)
    return names


PARAMS_SNAPSHOT = None


def _snapshot():
    global PARAMS_SNAPSHOT
    if PARAMS_SNAPSHOT is None:
        import json, os
        pth = os.path.join(os.path.dirname(os.path.dirname(os.path.abspath(__file__))), 'contracts', 'params.json')
        PARAMS_SNAPSHOT = json.load(open(pth)) if os.path.exists(pth) else {}
    return PARAMS_SNAPSHOT


class FileContracts:
    def __init__(self, relpath, stripped_text):
        self.relpath = relpath
        self.ed = Edits(stripped_text)
        self.text = stripped_text
        self.mask = self.ed.mask
        self.fns = find_fns(self.text, self.mask)
        self.impls = find_impl_blocks(self.text, self.mask)
        self.epilogue = []
        self.prologue = []
        self.contracted = []      # [(qualname, [clauses], kind)]
        self.assumed = []         # external_body etc: [(qualname, what)]
        self.renames = {}         # qualname -> {name the contracts were written against: current parameter name}
        self.force_external = set()   # qualnames whose body turned out to be outside Verus's subset (second pass)
        self.auto_external = []
        self.lost = []            # contracts / annotations whose anchor no longer exists (localized undecidedness)
        self.skipped = []         # optional helper contracts whose function no longer exists
        self.lemmas = []          # proof fns in the epilogue that are obligations: [(name, tags)]

    # ---- locating -------------------------------------------------------------------------
    def fn(self, name, within=None, nth=0):
        """FnRef of fn `name`; `within` = substring of the enclosing impl/trait header (normalised spaces)."""
        cands = [f for f in self.fns if f.name == name]
        if within is not None:
            blocks = [(ob, cb) for (hdr, ob, cb) in self.impls if within in hdr]
            if not blocks:
                raise LostAnchor('%s: no impl/trait block matching %r' % (self.relpath, within))
            cands = [f for f in cands if any(ob < f.kw < cb for (ob, cb) in blocks)]
        else:
            # free function: not inside any impl/trait block
            cands = [f for f in cands if not any(ob < f.kw < cb for (_, ob, cb) in self.impls)]
        if len(cands) <= nth:
            raise LostAnchor('%s: fn %s (within %r) not found' % (self.relpath, name, within))
        return cands[nth]

    def _ren(self, q, text):
        for a, b in self.renames.get(q, {}).items():
            text = re.sub(r'\b%s\b' % re.escape(a), b, text)
        return text

    def _qual(self, f, within):
        return '%s::%s%s' % (self.relpath, (within + '::') if within else '', f.name)

    # ---- operations -----------------------------------------------------------------------
    def contract(self, name, within=None, nth=0, ret='r', requires=(), ensures=(), decreases=None, attrs=(), external_body=False, tags=(), note='', optional=False):
        try:
            f = self.fn(name, within, nth)
        except LostAnchor:
            qn = '%s::%s%s' % (self.relpath, (within + '::') if within else '', name)
            if optional:
                self.skipped.append(qn)
                return None
            # the function is gone (renamed, inlined, deleted): every property its contract carried becomes undecided,
            # the rest of the crate is still decided
            self.lost.append(dict(q=qn, relpath=self.relpath, within=within, name=name, tags=list(tags), ensures=list(ensures), why='function not found'))
            return None
        q = self._qual(f, within)
        # contracts name parameters; if a parameter was renamed since the contracts were written, rename in the ghost text
        snap = _snapshot().get(q)
        now = param_names(self.text, f)
        self.actual_params = getattr(self, 'actual_params', {})
        self.actual_params[q] = now
        if snap and len(snap) == len(now):
            mp = dict((a, b) for a, b in zip(snap, now) if a and b and a != b)
            if mp:
                self.renames[q] = mp
                requires = [self._ren(q, x) for x in requires]
                ensures = [self._ren(q, x) for x in ensures]
        # line indentation of the fn keyword
        ls = self.text.rfind('\n', 0, f.kw) + 1
        indent = re.match(r'\s*', self.text[ls:]).group(0)
        # attributes go before the whole item line (before pub / #[inline] is fine: before `fn`'s line start)
        item_start = ls
        if q in getattr(self, 'force_external', ()) and not external_body:
            external_body = True
            self.auto_external.append(q)
        a = list(attrs)
        if external_body:
            a.append('#[verifier::external_body]')
            self.assumed.append((q, 'external_body'))
        if a:
            self.ed.insert(item_start, ''.join('%s%s\n' % (indent, x) for x in a), 'attr', q)
        if f.ret_start >= 0 and (ensures or requires) and ret:
            self.ed.insert(f.ret_start, '(%s: ' % ret, 'sig', q)
            self.ed.insert(f.ret_end, ')', 'sig', q)
        cl = _clauses('requires', list(requires), indent + '    ') + _clauses('ensures', list(ensures), indent + '    ')
        if decreases:
            cl += '%s    decreases %s,\n' % (indent, decreases)
        if cl:
            pos = f.body_open if f.body_open >= 0 else f.body_close
            if f.where_start >= 0:
                raise LostAnchor('%s: where-clause on contracted fn not supported' % q)
            # strip trailing spaces before '{' : we insert "\n<clauses><indent>" before it
            self.ed.insert(pos, '\n' + cl + indent, 'sig', q)
        self.contracted.append(dict(q=q, relpath=self.relpath, within=within, name=name, requires=list(requires), ensures=list(ensures),
                                    kind='external_body' if external_body else 'verified', tags=list(tags), note=note))
        return f

    def replace_in(self, name, *a, **k):
        try:
            return self._replace_in_raw(name, *a, **k)
        except LostAnchor as e:
            self.lost.append(dict(q='%s::%s%s' % (self.relpath, (k.get('within') + '::') if k.get('within') else '', name), relpath=self.relpath, within=k.get('within'), name=name, tags=[], ensures=[], why=str(e)))
            return None

    def _replace_in_raw(self, name, old, new, within=None, nth=0, occ=0, kind='closure', count=1):
        """replace the occ-th (or all, occ='all') code occurrence of literal `old` inside fn `name` by `new`."""
        f = self.fn(name, within, nth)
        lo, hi = (f.body_open, f.body_close) if f.body_open >= 0 else (f.kw, f.body_close)
        poss = []
        i = lo
        while True:
            i = find_code(self.text, self.mask, old, i, hi)
            if i < 0:
                break
            poss.append(i)
            i += len(old)
        if not poss:
            raise LostAnchor('%s: anchor %r not found in fn %s' % (self.relpath, old, name))
        if occ == 'all':
            sel = poss
        else:
            if occ >= len(poss):
                raise LostAnchor('%s: occurrence %d of %r not found in fn %s' % (self.relpath, occ, old, name))
            sel = [poss[occ]]
        for p in sel:
            self.ed.replace(p, p + len(old), new, kind, self._qual(f, within))
        return len(sel)

    def insert_after(self, name, *a, **k):
        try:
            return self._insert_after_raw(name, *a, **k)
        except LostAnchor as e:
            self.lost.append(dict(q='%s::%s%s' % (self.relpath, (k.get('within') + '::') if k.get('within') else '', name), relpath=self.relpath, within=k.get('within'), name=name, tags=[], ensures=[], why=str(e)))
            return None

    def _insert_after_raw(self, name, anchor, text, within=None, nth=0, occ=0, kind='proof'):
        f = self.fn(name, within, nth)
        lo, hi = f.body_open, f.body_close
        i = lo
        k = 0
        while True:
            i = find_code(self.text, self.mask, anchor, i, hi)
            if i < 0:
                raise LostAnchor('%s: anchor %r (occ %d) not found in fn %s' % (self.relpath, anchor, occ, name))
            if k == occ:
                break
            k += 1
            i += len(anchor)
        self.ed.insert(i + len(anchor), self._ren(self._qual(f, within), text), kind, self._qual(f, within))

    def insert_before(self, name, *a, **k):
        try:
            return self._insert_before_raw(name, *a, **k)
        except LostAnchor as e:
            self.lost.append(dict(q='%s::%s%s' % (self.relpath, (k.get('within') + '::') if k.get('within') else '', name), relpath=self.relpath, within=k.get('within'), name=name, tags=[], ensures=[], why=str(e)))
            return None

    def _insert_before_raw(self, name, anchor, text, within=None, nth=0, occ=0, kind='proof'):
        f = self.fn(name, within, nth)
        lo, hi = f.body_open, f.body_close
        i = lo
        k = 0
        while True:
            i = find_code(self.text, self.mask, anchor, i, hi)
            if i < 0:
                raise LostAnchor('%s: anchor %r (occ %d) not found in fn %s' % (self.relpath, anchor, occ, name))
            if k == occ:
                break
            k += 1
            i += len(anchor)
        self.ed.insert(i, self._ren(self._qual(f, within), text), kind, self._qual(f, within))

    def attr_before_item(self, anchor, attr, occ=0):
        """insert an attribute line before the line containing the occ-th code occurrence of `anchor` (file level)."""
        i = -1
        start = 0
        for _ in range(occ + 1):
            i = find_code(self.text, self.mask, anchor, start)
            if i < 0:
                raise LostAnchor('%s: item anchor %r not found' % (self.relpath, anchor))
            start = i + len(anchor)
        ls = self.text.rfind('\n', 0, i) + 1
        indent = re.match(r'\s*', self.text[ls:]).group(0)
        self.ed.insert(ls, '%s%s\n' % (indent, attr), 'attr', anchor)
        if 'external' in attr:
            self.assumed.append(('%s::%s' % (self.relpath, anchor), attr))

    def replace_item_text(self, old, new, kind, occ=0):
        """file-level literal replacement (used for module inlining and loop headers outside fns)."""
        i = -1
        start = 0
        for _ in range(occ + 1):
            i = find_code(self.text, self.mask, old, start)
            if i < 0:
                raise LostAnchor('%s: text %r not found' % (self.relpath, old))
            start = i + len(old)
        self.ed.replace(i, i + len(old), new, kind, old)

    def add_epilogue(self, text):
        self.epilogue.append(text)

    def add_prologue(self, text):
        self.prologue.append(text)

    # ---- result ---------------------------------------------------------------------------
    def render(self):
        body, spans = self.ed.apply()
        pro = ''.join(p if p.endswith('\n') else p + '\n' for p in self.prologue)
        epi = ''.join(e if e.endswith('\n') else e + '\n' for e in self.epilogue)
        return pro + body + ('\n' if not body.endswith('\n') else '') + epi, spans, len(pro)


# ---- helpers added to FileContracts -----------------------------------------------------------
def _wrap_closure_block(self, name, head_old, head_new, within=None, nth=0, occ=0):
    """`|x| match x { .. }`  ->  `|x: T| -> (o: U) ensures .. { match x { .. } }`
    head_old must end with the '{' that opens the closure's body expression block."""
    from rsrc import match_bracket
    f = self.fn(name, within, nth)
    lo, hi = f.body_open, f.body_close
    i = lo
    k = 0
    while True:
        i = find_code(self.text, self.mask, head_old, i, hi)
        if i < 0:
            raise LostAnchor('%s: closure head %r (occ %d) not found in fn %s' % (self.relpath, head_old, occ, name))
        if k == occ:
            break
        k += 1
        i += len(head_old)
    ob = i + len(head_old) - 1
    if self.text[ob] != '{':
        raise LostAnchor('closure head must end with {')
    cb = match_bracket(self.text, self.mask, ob)
    self.ed.replace(i, i + len(head_old), head_new, 'closure', self._qual(f, within))
    self.ed.insert(cb + 1, ' }', 'closure', self._qual(f, within))


FileContracts._wrap_closure_block_raw = _wrap_closure_block


def _body_prefix(self, name, text, within=None, nth=0):
    """insert ghost text right after the opening brace of fn `name`"""
    f = self.fn(name, within, nth)
    if f.body_open < 0:
        raise LostAnchor('%s: fn %s has no body' % (self.relpath, name))
    self.ed.insert(f.body_open + 1, '\n' + self._ren(self._qual(f, within), text), 'proof', self._qual(f, within))


FileContracts._body_prefix_raw = _body_prefix


def _lemma(self, name, tags):
    """register a proof fn of the epilogue as an obligation of the given properties"""
    self.lemmas.append((name, list(tags)))


FileContracts.lemma = _lemma


def _replace_in_re(self, name, pattern, template, within=None, nth=0, occ=0, kind='closure'):
    """like replace_in, but the anchor is a regular expression (so that a renamed closure parameter does not lose it);
    `template` may refer to groups (\\1 ..).  Only matches that start in code (not comments / strings) count."""
    f = self.fn(name, within, nth)
    lo, hi = (f.body_open, f.body_close) if f.body_open >= 0 else (f.kw, f.body_close)
    ms = [m for m in re.finditer(pattern, self.text[lo:hi]) if self.mask[lo + m.start()]]
    if not ms:
        raise LostAnchor('%s: pattern %r not found in fn %s' % (self.relpath, pattern, name))
    if occ == 'all':
        sel = ms
    else:
        if occ >= len(ms):
            raise LostAnchor('%s: occurrence %d of pattern %r not found in fn %s' % (self.relpath, occ, pattern, name))
        sel = [ms[occ]]
    for m in sel:
        self.ed.replace(lo + m.start(), lo + m.end(), m.expand(template), kind, self._qual(f, within))
    return [m.groups() for m in sel]


def _wrap_closure_block_re(self, name, pattern, template, within=None, nth=0, occ=0):
    """regex version of wrap_closure_block: pattern must end with the '{' opening the closure's body expression block"""
    from rsrc import match_bracket
    f = self.fn(name, within, nth)
    lo, hi = f.body_open, f.body_close
    ms = [m for m in re.finditer(pattern, self.text[lo:hi]) if self.mask[lo + m.start()]]
    if len(ms) <= occ:
        raise LostAnchor('%s: closure pattern %r (occ %d) not found in fn %s' % (self.relpath, pattern, occ, name))
    m = ms[occ]
    ob = lo + m.end() - 1
    if self.text[ob] != '{':
        raise LostAnchor('closure pattern must end with {')
    cb = match_bracket(self.text, self.mask, ob)
    self.ed.replace(lo + m.start(), lo + m.end(), m.expand(template), 'closure', self._qual(f, within))
    self.ed.insert(cb + 1, ' }', 'closure', self._qual(f, within))


FileContracts._replace_in_re_raw = _replace_in_re
FileContracts._wrap_closure_block_re_raw = _wrap_closure_block_re


def _soft(rawname):
    def f(self, name, *a, **k):
        try:
            return getattr(self, rawname)(name, *a, **k)
        except LostAnchor as e:
            self.lost.append(dict(q='%s::%s%s' % (self.relpath, (k.get('within') + '::') if k.get('within') else '', name), relpath=self.relpath,
                                  within=k.get('within'), name=name, tags=[], ensures=[], why=str(e)))
            return None
    return f


for _m in ('wrap_closure_block', 'body_prefix', 'replace_in_re', 'wrap_closure_block_re'):
    setattr(FileContracts, _m, _soft('_%s_raw' % _m))


def _insert_re(self, name, pattern, text, within=None, nth=0, occ=0, kind='proof', after=False):
    """insert ghost text before (or after) the occ-th code match of a regular expression inside fn `name`; `text` may use groups"""
    f = self.fn(name, within, nth)
    lo, hi = f.body_open, f.body_close
    ms = [m for m in re.finditer(pattern, self.text[lo:hi]) if self.mask[lo + m.start()]]
    if len(ms) <= occ:
        raise LostAnchor('%s: pattern %r (occ %d) not found in fn %s' % (self.relpath, pattern, occ, name))
    m = ms[occ]
    pos = lo + (m.end() if after else m.start())
    self.ed.insert(pos, self._ren(self._qual(f, within), m.expand(text)), kind, self._qual(f, within))
    return m.groups()


def _wrap_closure_expr_re(self, name, pattern, template, within=None, nth=0, occ=0):
    """`|x| <expr>` -> `<template> <expr> }` where `pattern` matches the closure header (it must end with the closing `|`) and the
    body expression extends to the first `,` or unmatched closing bracket at nesting depth 0 (so `match`, `if/else`, a block or a
    plain expression are all accepted).  `template` must end with the `{` that opens the new body block."""
    from rsrc import match_bracket
    f = self.fn(name, within, nth)
    lo, hi = f.body_open, f.body_close
    ms = [m for m in re.finditer(pattern, self.text[lo:hi]) if self.mask[lo + m.start()]]
    if len(ms) <= occ:
        raise LostAnchor('%s: closure pattern %r (occ %d) not found in fn %s' % (self.relpath, pattern, occ, name))
    m = ms[occ]
    i = lo + m.end()
    if self.text[i - 1] != '|':
        raise LostAnchor('closure header pattern must end with |')
    while i < hi:
        if self.mask[i]:
            c = self.text[i]
            if c in '([{':
                i = match_bracket(self.text, self.mask, i)
            elif c in ')]},;':
                break
        i += 1
    end = i
    while end > lo + m.end() and self.text[end - 1].isspace():
        end -= 1
    if end <= lo + m.end():
        raise LostAnchor('%s: empty closure body in fn %s' % (self.relpath, name))
    self.ed.replace(lo + m.start(), lo + m.end(), m.expand(template), 'closure', self._qual(f, within))
    self.ed.insert(end, ' }', 'closure', self._qual(f, within))
    return m.groups()


FileContracts._wrap_closure_expr_re_raw = _wrap_closure_expr_re
FileContracts.wrap_closure_expr_re = _soft('_wrap_closure_expr_re_raw')


def _fn_text(self, name, within=None, nth=0):
    f = self.fn(name, within, nth)
    return self.text[f.body_open:f.body_close + 1]


FileContracts._insert_re_raw = _insert_re
FileContracts.insert_re = _soft('_insert_re_raw')
FileContracts.fn_text = _fn_text
