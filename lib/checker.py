"""Property checker: assemble -> Verus (engine V) -> Kani leaves (engine K) -> verdict + evidence.

exit 0  every obligation mapped to the property discharged (known findings listed with KNOWN-FINDING lines)
exit 1  an obligation that is discharged on the unchanged tree is refuted (VIOLATION line, replay file)
exit 2  undecided: lost anchor, unsupported construct, rlimit, tool failure, vacuity canary passed
"""
import json
import os
import re
import shutil
import subprocess
import sys
import tempfile
import time

HERE = os.path.dirname(os.path.abspath(__file__))
ROOT = os.path.dirname(HERE)
sys.path.insert(0, HERE)
sys.path.insert(0, os.path.join(ROOT, 'contracts'))

import assemble
import registry
import vrun
from rsrc import LostAnchor, find_fns, code_mask

REPO = os.environ.get('VERIF_REPO', '/repo')
CACHE = os.path.join(ROOT, '.cache')
TAG_RE = re.compile(r'_(C\d\d|KFD\d+)\(')
ALL_PROPS = ['C%02d' % i for i in range(1, 21)]


class Undecided(Exception):
    pass


def log(msg):
    sys.stderr.write('[check] %s\n' % msg)
    sys.stderr.flush()


TAG2_RE = re.compile(r'/\*@(C\d\d)\*/')


def clause_tags(clause, fn_tags):
    # a clause belongs to the properties its spec-function names carry (`t18_C16(`), or to those an injected helper-closure contract
    # names in a marker comment (`/*@C10*/`), otherwise to the function's own tags
    t = TAG_RE.findall(clause) + TAG2_RE.findall(clause)
    return sorted(set(t)) if t else list(fn_tags)


# ------------------------------------------------------------------------------------------------
def add_canaries(asm_hook_files):
    """per contracted fn with a precondition: proof fn with the same parameters and precondition, ensures false.
    It must FAIL; if it verifies the precondition is contradictory (every proof about that fn would be vacuous)."""
    for relpath, fc in asm_hook_files.items():
        k = 0
        for c in fc.contracted:
            if not c['requires']:
                continue
            f = fc.fn(c['name'], c['within'])
            params = fc.text[f.params_open + 1:f.params_close]
            if re.search(r'(^|[(,\s])&?\s*(mut\s+)?self\b', params):
                continue
            params = re.sub(r'\bmut\s+', '', params)
            params = re.sub(r"'[a-z_]\w*\s*", '', params)     # elide lifetimes
            gen = fc.text[f.kw:f.params_open]
            mg = re.search(r'<.*>', gen, re.S)
            generics = mg.group(0) if mg else ''
            generics = re.sub(r"'[a-z_]\w*\s*,?\s*", '', generics)
            if re.fullmatch(r'<\s*>', generics or ''):
                generics = ''
            req = ', '.join(c['requires'])
            name = 'vcanary_%s_%d_%s' % (re.sub(r'\W', '_', relpath[:-3]), k, c['name'])
            k += 1
            fc.add_epilogue('proof fn %s%s(%s) requires %s, ensures false, {}\n' % (name, generics, params, req))
            fc.canaries.append(name)


def assemble_crate(cfg_features, force_external=()):
    spec = open(os.path.join(ROOT, 'spec', 'prelude.rs')).read()
    for extra in sorted(os.listdir(os.path.join(ROOT, 'spec'))):
        if extra.endswith('.rs') and extra != 'prelude.rs':
            spec += '\n' + open(os.path.join(ROOT, 'spec', extra)).read()
    spec += '\n// global consistency canary: must fail (inconsistent axioms / assumed specs would make it pass)\nproof fn vcanary_axioms() ensures false {}\n'
    files = {}

    def apply(relpath, fc):
        fc.canaries = []
        fc.force_external = set(force_external)
        # `const X: &str = ..` / `static X: &[u8] = ..`: inside verus!{} the elided lifetime of a const/static item is not accepted;
        # it is 'static by the language rule (RFC 1623), so writing it out changes nothing (recorded like every other edit)
        for m in re.finditer(r'\b(?:const|static)\s+[A-Za-z_]\w*\s*:\s*&(?!\s*\')', fc.text):
            if fc.mask[m.start()]:
                try:
                    fc.ed.insert(m.end(), "'static ", 'verus-syntax', 'elided lifetime of a const/static item written out')
                except LostAnchor:
                    pass
        registry.apply(relpath, fc, cfg_features)
        # functions without a contract entry whose body is outside Verus's subset
        for q in force_external:
            if q.startswith(relpath + '::') and q not in [c['q'] for c in fc.contracted]:
                parts = q[len(relpath) + 2:].rsplit('::', 1)
                within, name = (parts[0], parts[1]) if len(parts) == 2 else (None, parts[0])
                try:
                    fc.contract(name, within=within, external_body=True)
                    fc.auto_external.append(q)
                except Exception:
                    pass
        files[relpath] = fc
        add_canaries({relpath: fc})

    asm = assemble.build(os.path.join(REPO, 'src'), apply, spec)
    # proof fns of the specification files are obligations of the property whose argument they carry
    spec_tags = {'unarmor.rs': ['C03'], 'sentence.rs': [], 'prelude.rs': []}
    for fn_ in sorted(os.listdir(os.path.join(ROOT, 'spec'))):
        if fn_.endswith('.rs') and spec_tags.get(fn_):
            for m in re.finditer(r'^pub proof fn (\w+)', open(os.path.join(ROOT, 'spec', fn_)).read(), re.M):
                asm.lemmas.append(dict(relpath='<wrap>', name=m.group(1), tags=spec_tags[fn_]))
    asm.canaries = ['vcanary_axioms'] + [n for fc in files.values() for n in fc.canaries]
    return asm


# ------------------------------------------------------------------------------------------------
class VResult:
    pass


def run_v(features, work, rlimit=100):
    """assemble + verify; returns VResult with obligations and failures, property-independent"""
    r = VResult()
    t0 = time.time()
    if not vrun.build_shim(work, log):
        raise Undecided('contract shim crate does not verify/compile')
    cfgs = ['feature="%s"' % f for f in features]
    forced = set()
    for attempt in range(6):
        try:
            asm = assemble_crate(features, forced)
        except LostAnchor as e:
            raise Undecided('lost anchor: %s' % e)
        r.asm = asm
        d = vrun.run_verus(work, asm.text, cfgs, log, rlimit=rlimit, cache_dir=CACHE)
        r.raw = d
        if d['json'] is None:
            raise Undecided('verus produced no result (type error, unsupported construct or crash):\n' + (d['stderr'] or d.get('stdout', ''))[-3000:])
        res = d['json'].get('verification-results', {})
        unsupported = res.get('encountered-vir-error') or re.search(r'^error: .*(not supported|does not yet support|not yet supported)', d['stderr'], re.M)
        if unsupported and res.get('verified', 0) == 0:
            # a construct outside Verus's subset: skip the body of the function that contains it (its contract stays, assumed),
            # decide everything else; the properties that function carries are reported undecided
            idx0 = vrun.FnIndex(asm.text, asm.linemap)
            new = set()
            for e in vrun.parse_errors(d['stderr'], idx0):
                if e['line'] and e['fn'][2] and ('not supported' in e['kind'] or 'not yet support' in e['kind'] or 'does not yet support' in e['kind']):
                    rel, hdr, name = e['fn']
                    within = None
                    if hdr:
                        # use the same `within` the contract used, if there is one
                        for c in asm.contracted:
                            if c['relpath'] == rel and c['name'] == name and c['within'] and c['within'] in hdr:
                                within = c['within']
                        within = within or hdr
                    new.add('%s::%s%s' % (rel, (within + '::') if within else '', name))
            new -= forced
            if new:
                log('outside Verus subset, body skipped: %s' % ', '.join(sorted(new)))
                forced |= new
                continue
            files = sorted(set(e['fn'][0] for e in vrun.parse_errors(d['stderr'], idx0) if e['line'] and e['fn'][0] not in ('<wrap>', '?')))
            raise Undecided('verus VIR error (unsupported construct) in %s:\n' % ', '.join(files) + d['stderr'][-3000:])
        break
    if res.get('encountered-vir-error'):
        raise Undecided('verus VIR error (unsupported construct):\n' + d['stderr'][-3000:])
    if re.search(r'^error\[E\d+\]', d['stderr'], re.M) or (res.get('encountered-error') and res.get('verified', 0) == 0 and res.get('errors', 0) == 0):
        raise Undecided('the extracted text no longer compiles under Verus (rustc error):\n' + d['stderr'][-3000:])
    if 'verified' not in res:
        raise Undecided('verus reported no verification result:\n' + d['stderr'][-3000:])
    idx = vrun.FnIndex(asm.text, asm.linemap)
    r.idx = idx
    r.errors = vrun.parse_errors(d['stderr'], idx)
    r.breakdown = vrun.function_breakdown(d['json'])
    r.verified_count = res.get('verified', 0)
    r.error_count = res.get('errors', 0)
    r.lines = asm.text.split('\n')
    # canaries
    r.canary_failed = set()
    for e in r.errors:
        nm = e['fn'][2]
        if nm and nm.startswith('vcanary_'):
            r.canary_failed.add(nm)
    r.canary_passed = [c for c in asm.canaries if c not in r.canary_failed]
    r.wall = time.time() - t0
    return r


def fn_key(c):
    return (c['relpath'], c['within'], c['name'])


def match_fn(err_fn, c):
    """does the error's enclosing fn (relpath, impl header, name) belong to contract c?"""
    rel, hdr, name = err_fn
    if rel != c['relpath'] or name != c['name']:
        return False
    if c['within'] is None:
        return hdr is None
    return hdr is not None and c['within'] in hdr


def verus_name_matches(vname, c):
    """verus function path vs contract (module + trailing name)"""
    mod = c['relpath'][:-3].replace('/', '::')
    if mod.endswith('::mod'):
        mod = mod[:-5]
    if mod == 'lib':
        mod = ''
    parts = vname.split('::')
    if parts[-1] != c['name']:
        return False
    body = '::'.join(parts[1:-1])   # drop crate name and fn name
    if body == mod or body.startswith(mod + '::'):
        return True
    # trait impls on foreign Self types are named after the Self type's own path (e.g. core::option::Option::from)
    w = c.get('within') or ''
    m = re.search(r'\bfor\s+([A-Za-z_]\w*)', w) or re.search(r'\bimpl(?:<[^>]*>)?\s+([A-Za-z_]\w*)', w)
    return bool(m) and len(parts) >= 2 and parts[-2] == m.group(1)


def evaluate(r, prop, known):
    """returns dict(obligations=[..], discharged=[..], failures=[..], undecided=[..], known=[..])"""
    asm = r.asm
    obligations = []     # (id, text)
    failures = []        # dict(ob, err)
    undecided = []
    # ---- errors by function
    errs_by_contract = {}
    loose = []
    for e in r.errors:
        nm = e['fn'][2] or ''
        if nm.startswith('vcanary_'):
            continue
        hit = None
        for c in asm.contracted:
            if match_fn(e['fn'], c):
                hit = c
                break
        if hit is None:
            loose.append(e)
        else:
            errs_by_contract.setdefault(fn_key(hit), []).append(e)
    lemma_errs = {}
    for e in list(loose):
        for l in asm.lemmas:
            if e['fn'][2] == l['name'] and e['fn'][0] == l['relpath']:
                lemma_errs.setdefault(l['name'], []).append(e)
                loose.remove(e)
                break
    # errors inside a function that has no contract (a helper introduced by a refactoring, typically): without a precondition its
    # body cannot be judged, so this is never an alarm; it makes undecided the properties of the contracted functions that reach it
    # (transitively through other uncontracted functions), and C01
    def _body_code(fc, f):
        return ''.join(ch if fc.mask[f.body_open + i] else ' ' for i, ch in enumerate(fc.text[f.body_open:f.body_close])) if f.body_open >= 0 else ''
    _contracted_names = set(c['name'] for c in asm.contracted)
    _all_fns = [(rel_, fc, f) for rel_, fc in asm.files.items() if rel_ != 'messages/nom_noalloc.rs' for f in fc.fns]

    def reaching_tags(name):
        targets, grew = {name}, True
        while grew:
            grew = False
            for (_rel, fc, f) in _all_fns:
                if f.name in targets or f.name in _contracted_names:
                    continue
                b = _body_code(fc, f)
                if any(re.search(r'\b%s\b' % re.escape(t), b) for t in targets):
                    targets.add(f.name); grew = True
        tags, found = set(), False
        for c in asm.contracted:
            fc = asm.files.get(c['relpath'])
            try:
                f = fc.fn(c['name'], c['within'])
            except Exception:
                continue
            b = _body_code(fc, f)
            if any(re.search(r'\b%s\b' % re.escape(t), b) for t in targets):
                found = True
                tags |= set(c['tags']) | set(tt for x in c['ensures'] for tt in clause_tags(x, c['tags']))
        return tags if found else None
    for e in loose:
        rel = e['fn'][0]
        rt = reaching_tags(e['fn'][2] or '')
        if rt is None:
            rt = set(t for c in asm.contracted if c['relpath'] == rel for t in (set(c['tags']) | set(tt for x in c['ensures'] for tt in clause_tags(x, c['tags']))))
        if prop == 'C01' or prop in rt or not rt:
            undecided.append('%s::%s has no contract and does not verify on its own (%s)' % (rel, e['fn'][2], e['kind'][:80]))
    names_seen = set(r.breakdown.keys())
    # functions of the repository that have no contract (new helpers introduced by a refactoring, mostly): a caller that fails
    # to verify may only be failing because the callee says nothing -> undecided, never an alarm
    contracted_names = set(c['name'] for c in asm.contracted)
    # (nom_noalloc.rs is compiled only in the no-allocator configuration; its `count` / `many_m_n` shadow nom's names)
    repo_fn_names = set(f.name for rel_, fc in asm.files.items() if rel_ != 'messages/nom_noalloc.rs' for f in fc.fns)
    uncontracted = repo_fn_names - contracted_names

    def calls_uncontracted(c):
        fc = asm.files.get(c['relpath'])
        if fc is None:
            return []
        try:
            f = fc.fn(c['name'], c['within'])
        except Exception:
            return []
        body = ''.join(ch if fc.mask[f.body_open + i] else ' ' for i, ch in enumerate(fc.text[f.body_open:f.body_close])) if f.body_open >= 0 else ''
        return sorted(n for n in uncontracted if re.search(r'\b%s\s*(::<[^>]*>)?\(' % re.escape(n), body))
    # anchors that no longer exist: undecided for the properties that function carries (and only for those)
    by_q = dict((c['q'], c) for c in asm.contracted)
    lost_fns = set()
    for L in asm.lost:
        tags = set(L['tags']) | set(t for x in L['ensures'] for t in clause_tags(x, L['tags']))
        c0 = by_q.get(L['q'])
        if c0 is not None:
            lost_fns.add(fn_key(c0))
            tags |= set(c0['tags']) | set(t for x in c0['ensures'] for t in clause_tags(x, c0['tags']))
        if prop in tags or prop == 'C01' or not tags:
            undecided.append('lost anchor in %s: %s' % (L['q'], L['why'][:200]))
    for c in asm.contracted:
        cl = [(x, clause_tags(x, c['tags'])) for x in c['ensures']]
        if c['q'] in asm.auto_external:
            tg = set(c['tags']) | {'C01'} | set(t for (_x, ts) in cl for t in ts)
            if prop in tg:
                undecided.append('%s: body uses a construct outside Verus\'s subset (contract assumed, not proved)' % c['q'])
            continue
        # a body-level failure (violated callee precondition, overflow, ..) concerns every property the function carries
        fn_tags = set(c['tags']) | {'C01'} | set(t for (_x, ts) in cl for t in ts if t.startswith('C'))
        my_clauses = [x for (x, t) in cl if prop in t]
        relevant = prop in fn_tags or bool(my_clauses)
        if not relevant:
            continue
        q = c['q']
        if c['kind'] == 'external_body':
            # assumed in V; the K side owns these obligations
            continue
        # was the function actually verified in this run?
        seen = [n for n in names_seen if verus_name_matches(n, c)]
        if not seen:
            undecided.append('%s: not reported by the verifier (skipped?)' % q)
            continue
        errs = errs_by_contract.get(fn_key(c), [])
        safety_ob = q + ':safety'
        if prop in fn_tags:
            obligations.append((safety_ob, 'body: no panic, overflow, out-of-bounds, violated callee precondition; loops terminate'))
        for x in my_clauses:
            obligations.append((q + ':ensures:' + x, x))
        unk = calls_uncontracted(c) if errs else []
        for e in errs:
            if fn_key(c) in lost_fns and e['status'] == 'refuted':
                undecided.append('%s: fails to verify, but one of its ghost annotations lost its anchor' % q)
                continue
            if unk and e['status'] == 'refuted':
                undecided.append('%s: fails to verify but calls function(s) without a contract (%s): cannot tell a violation from a missing contract' % (q, ', '.join(unk)))
                continue
            if e['status'] == 'undecided':
                undecided.append('%s: %s' % (q, e['kind']))
                continue
            src = r.lines[e['line'] - 1] if e['line'] else ''
            if e['clause_lines'] and ('postcondition' in e['kind'] or 'post-condition' in e['kind']):
                for ln in e['clause_lines']:
                    text = r.lines[ln - 1].strip().rstrip(',')
                    # a failed postcondition of a helper closure that names no property (and whose function has no tags of its own)
                    # concerns every property the function carries, like any other body-level failure.  (Until round 5 such a
                    # failure was attributed to nothing and silently dropped: `raw_draught as f32 / 100.0` passed the C10 check.)
                    tg = clause_tags(text, c['tags']) or sorted(fn_tags)
                    if prop in tg:
                        failures.append(dict(ob=q + ':ensures:' + text, err=e, tags=tg, clause=text, contract=c))
            elif e['status'] == 'refuted':
                if re.search(r'\bproof\s*\{|^\s*assert\(', src):
                    undecided.append('%s: injected proof hint no longer holds (%s)' % (q, e['kind']))
                elif prop in fn_tags:
                    failures.append(dict(ob=safety_ob, err=e, tags=sorted(fn_tags), clause=None, contract=c))
            else:
                undecided.append('%s: %s' % (q, e['kind']))
    for l in asm.lemmas:
        if prop in l['tags']:
            ob = '%s::%s:lemma' % (l['relpath'], l['name'])
            obligations.append((ob, 'lemma ' + l['name']))
            for e in lemma_errs.get(l['name'], []):
                if e['status'] == 'refuted':
                    failures.append(dict(ob=ob, err=e, tags=l['tags'], clause=None, contract=None))
                else:
                    undecided.append('%s: %s' % (ob, e['kind']))
    # ---- known findings
    known_hits = []
    real = []
    for f in failures:
        kf = None
        for k in known:
            if k.get('status', 'open') != 'open' or k['property'] != prop or k.get('engine', 'V') != 'V':
                continue
            c = f.get('contract')
            if c and k['function'] == c['q'] and f.get('clause') and k['clause_tag'] in TAG_RE.findall(f['clause'] + '('):
                # the signature clause of the same function must still hold
                sig_failed = False
                for e in errs_by_contract.get(fn_key(c), []):
                    for ln in e['clause_lines']:
                        if k['signature_tag'] in TAG_RE.findall(r.lines[ln - 1]):
                            sig_failed = True
                if not sig_failed:
                    kf = k
        if kf:
            known_hits.append((kf, f))
        else:
            real.append(f)
    def key(ob):
        # function + name of the spec fn of the clause (closure-level and fn-level copies of a clause share it)
        m = re.match(r'(.*):ensures:\s*([A-Za-z_0-9:]+)\(', ob)
        return (m.group(1), m.group(2)) if m else (ob, None)
    failed_keys = set(key(f['ob']) for f in failures)
    known_keys = set(key(f['ob']) for (k, f) in known_hits)
    # an obligation suppressed by a known finding is neither counted nor claimed; its signature obligation is
    known_obs = [o for o in obligations if key(o[0]) in known_keys]
    obligations = [o for o in obligations if key(o[0]) not in known_keys]
    discharged = [o for o in obligations if key(o[0]) not in failed_keys]
    return dict(obligations=obligations, discharged=discharged, failures=real, known=known_hits, undecided=undecided, known_obs=known_obs)
