"""developer driver: assemble + run verus on selected modules.  usage: dev.py [module ...]"""
import sys, os, subprocess, time
sys.path.insert(0, '/verif/lib'); sys.path.insert(0, '/verif/contracts')
import assemble, registry
W = os.environ.get('W', '/tmp/w')
repo = os.environ.get('REPO', '/repo')
spec = open('/verif/spec/prelude.rs').read() + ''.join(open('/verif/spec/' + f).read() for f in sorted(os.listdir('/verif/spec')) if f.endswith('.rs') and f != 'prelude.rs')
asm = assemble.build(os.path.join(repo, 'src'), registry.apply, spec)
open(os.path.join(W, 'ais_v.rs'), 'w').write(asm.text)
mods = sys.argv[1:]
cmd = ['verus', 'ais_v.rs', '--crate-type=lib', '--cfg', 'feature="std"', '--extern', 'nom=libnom.rlib', '--import', 'nom=nom.vir', '-L', '.',
       '--triggers-mode', 'silent', '--multiple-errors', '5', '--time']
raw = False
for m in mods:
    if raw or m.startswith('-') or m[0].isdigit():
        cmd.append(m)
        raw = m in ('--verify-only-module', '--verify-function', '--rlimit')
    else:
        cmd += ['--verify-module', m]
t = time.time()
p = subprocess.run(cmd, cwd=W, capture_output=True, text=True)
sys.stdout.write(p.stdout[-3000:])
err = p.stderr
# compress
lines = err.split('\n')
print('\n'.join(lines[:int(os.environ.get('N', '150'))]))
print('wall', round(time.time() - t, 1))
