"""Engine K: Kani harnesses on a scratch copy of the real crate.

The harness fragments under /verif/kani/<file>.rs are appended as `#[cfg(kani)] mod verif_k { .. }` to a scratch
copy of /repo's working tree (child modules see private items); nothing is written to /repo.
Kinds:  complete  = loop-free / width-bounded harness over the full input domain (counts as discharged)
        bounded   = stand-in with a stated bound (reported under bounded_standins, never counted as proved)
        shimval   = validation of an assumed nom contract against the real nom code on a stated domain
"""
import hashlib
import json
import os
import re
import shutil
import subprocess
import time

ROOT = os.path.dirname(os.path.dirname(os.path.abspath(__file__)))
REPO = os.environ.get('VERIF_REPO', '/repo')
CACHE = os.path.join(ROOT, '.cache')

# name, source file it is appended to, properties, kind, domain / bound text, tier (quick|thorough), timeout s
HARNESSES = [
    ('k_signed_i32', 'messages/parsers.rs', ['C10', 'C01'], 'complete', 'all widths 1..=31 x bit offsets 0..7 x all contents (5 bytes suffice)', 'quick', 600),
    ('k_signed_i32_short', 'messages/parsers.rs', ['C10', 'C01', 'C14'], 'complete', 'all widths x offsets x contents on a 2-byte buffer: Err iff the bits are not there', 'quick', 600),
    ('k_message_type', 'messages/parsers.rs', ['C09', 'C19', 'C01'], 'complete', 'buffers of 0..=2 bytes, all contents (only the first byte is read)', 'quick', 300),
    ('k_radio_sotdma', 'messages/radio_status.rs', ['C16', 'C01'], 'complete', 'all 2^19 SOTDMA states at every bit offset 0..7', 'quick', 600),
    ('k_radio_itdma', 'messages/radio_status.rs', ['C16', 'C01'], 'complete', 'all 2^19 ITDMA states at every bit offset 0..7', 'quick', 600),
    ('k_radio_dispatch', 'messages/radio_status.rs', ['C16', 'C01'], 'complete', 'all 256 message type values x all contents', 'quick', 600),
    ('k_u8_to_bool', 'messages/parsers.rs', ['C04'], 'complete', 'both values of a 1-bit field', 'quick', 300),
    ('k_rot_parse', 'messages/navigation.rs', ['C11', 'C01'], 'complete', 'all 256 codes', 'quick', 300),
    ('k_dte_from', 'messages/types.rs', ['C12', 'C01'], 'complete', 'both values of a 1-bit field', 'quick', 300),
    ('k_dte_default', 'messages/types.rs', ['C14', 'C12'], 'complete', 'no input', 'quick', 300),
    ('k_talker_from', 'sentence.rs', ['C07', 'C01'], 'complete', 'all byte strings of length 0..=3 (the parser passes length 2)', 'quick', 300),
    ('k_rtype_from', 'sentence.rs', ['C07', 'C01'], 'complete', 'all byte strings of length 0..=4 (the parser passes length 3)', 'quick', 300),
    ('k_parser_default', 'sentence.rs', ['C05', 'C06', 'C17'], 'complete', 'no input', 'quick', 300),
    # ---- validation of assumed nom contracts against the real nom code (bounded domains; reported separately)
    ('k_nom_take_u8', 'lib.rs', ['SHIM'], 'shimval', 'bits::complete::take -> u8: count <= 8, offset < 8, buffers 0..=6 bytes, all contents', 'quick', 900),
    ('k_nom_take_u16', 'lib.rs', ['SHIM'], 'shimval', 'bits::complete::take -> u16: count <= 16, offset < 8, buffers 0..=6 bytes', 'quick', 900),
    ('k_nom_take_u32', 'lib.rs', ['SHIM'], 'shimval', 'bits::complete::take -> u32: count <= 32, offset < 8, buffers 0..=6 bytes', 'quick', 900),
    ('k_nom_take_i16', 'lib.rs', ['SHIM'], 'shimval', 'bits::complete::take -> i16: count <= 15', 'quick', 900),
    ('k_nom_take_i32', 'lib.rs', ['SHIM'], 'shimval', 'bits::complete::take -> i32: count <= 31', 'quick', 900),
    ('k_nom_take_u8_wide', 'lib.rs', ['SHIM'], 'shimval', 'take -> u8 with 8 < count and count + offset < 16: no panic, position', 'quick', 600),
    ('k_nom_many_1_4', 'lib.rs', ['SHIM'], 'shimval', 'multi::many_m_n(1, 4, one-byte parser) on 0..=6 bytes', 'quick', 900),
    ('k_nom_glue', 'lib.rs', ['SHIM'], 'shimval', 'combinator::{opt, peek, verify, map}, branch::alt, sequence::{terminated, delimited} over one-byte parsers on 0..=4 bytes', 'quick', 900),
    ('k_nom_bits', 'lib.rs', ['SHIM'], 'shimval', 'bits::bits over a 6-bit take on 0..=2 bytes', 'quick', 600),
    ('k_nom_tag_take_anychar', 'lib.rs', ['SHIM'], 'shimval', 'bytes::complete::{tag, take}, character::complete::anychar on 0..=4 bytes', 'quick', 600),
    # ---- bounded stand-ins (never counted as proved)
    ('k_checksum_0', 'sentence.rs', ['C02', 'C01'], 'bounded', 'check_checksum: 0 bytes, all expected values', 'quick', 300),
    ('k_checksum_2', 'sentence.rs', ['C02', 'C01'], 'bounded', 'check_checksum: 2 bytes, all contents', 'quick', 300),
    ('k_checksum_17', 'sentence.rs', ['C02', 'C01'], 'bounded', 'check_checksum: 17 bytes, all contents', 'quick', 300),
    ('k_checksum_64', 'sentence.rs', ['C02', 'C01'], 'bounded', 'check_checksum: 64 bytes, all contents', 'quick', 600),
    ('k_digit_0', 'sentence.rs', ['C07', 'C08', 'C01'], 'bounded', 'parse_u8_digit: empty input', 'quick', 600),
    ('k_digit_1', 'sentence.rs', ['C07', 'C08', 'C01'], 'bounded', 'parse_u8_digit: 1 byte, all contents', 'thorough', 600),
    ('k_digit_3', 'sentence.rs', ['C07', 'C08', 'C01'], 'bounded', 'parse_u8_digit: 3 bytes, all contents (0..999, leading zeros, non-digits)', 'quick', 600),
    ('k_digit_4', 'sentence.rs', ['C07', 'C08', 'C01'], 'bounded', 'parse_u8_digit: 4 bytes, all contents', 'thorough', 900),
    ('k_text_1', 'messages/parsers.rs', ['C13', 'C01'], 'bounded', 'parse_6bit_ascii: 1 character, every bit offset, all contents', 'quick', 900),
    ('k_text_2', 'messages/parsers.rs', ['C13', 'C01'], 'bounded', 'parse_6bit_ascii: 2 characters, every bit offset, all contents', 'quick', 900),
    ('k_text_3', 'messages/parsers.rs', ['C13', 'C01'], 'bounded', 'parse_6bit_ascii: 3 characters, every bit offset, all contents (the shortest text on which the order of the three trimming steps matters: letter, space, @)', 'quick', 1800),
]
# byte-level scanners validated in the alloc configuration (under std nom's memchr reaches inline assembly)
ALLOC_SHIM = [
    ('k_nom_take_until', 'lib.rs', ['SHIM'], 'shimval', 'bytes::complete::take_until(",") on 0..=4 bytes, all contents (alloc configuration)', 'quick', 900),
    ('k_nom_digit1', 'lib.rs', ['SHIM'], 'shimval', 'character::complete::digit1 on 0..=4 bytes, all contents (alloc configuration)', 'quick', 600),
]

NOALLOC = [
    ('k_na_unarmor_0', 'messages/mod.rs', ['C18'], 'bounded', 'no-allocator unarmor, 0 characters', 'quick', 600),
    ('k_na_unarmor_3', 'messages/mod.rs', ['C18'], 'bounded', 'no-allocator unarmor, 3 characters, all contents and fill counts, vs the same reference as the std build', 'quick', 600),
    ('k_na_unarmor_5', 'messages/mod.rs', ['C18'], 'bounded', 'no-allocator unarmor, 5 characters', 'quick', 600),
    ('k_na_unarmor_8', 'messages/mod.rs', ['C18'], 'bounded', 'no-allocator unarmor, 8 characters', 'thorough', 900),
    ('k_na_text_2', 'messages/mod.rs', ['C18', 'C13'], 'bounded', 'no-allocator text decoding: 2 characters, every bit offset, all contents, vs the same reference as the std build', 'quick', 1200),
    ('k_na_extend_full', 'sentence.rs', ['C18', 'C01'], 'bounded', 'no-allocator reassembly capacity: extending a full 384-byte buffer is an error, not a panic; one concrete state', 'quick', 1200),
    ('k_na_text_21', 'messages/mod.rs', ['C18', 'C01'], 'bounded', 'no-allocator text capacity: a 21-character text field is an error, not a panic; one concrete input', 'quick', 600),
    ('k_na_many_1_4', 'messages/mod.rs', ['C18', 'C14'], 'bounded', 'no-allocator many_m_n::<.., 4>(1, one-byte parser) on 0..=6 bytes, all contents: same contract as the one assumed for nom::multi::many_m_n(1, 4, ..)', 'quick', 900),
]

# unarmor is proved by Verus for every length (loop invariant + bit-vector lemmas); these harnesses are an independent bounded cross-check
for _n, _unw in [(0, 'quick'), (1, 'thorough'), (2, 'thorough'), (3, 'quick'), (4, 'thorough'), (5, 'quick'), (6, 'thorough'), (7, 'thorough'), (8, 'thorough'), (9, 'thorough'), (12, 'thorough'), (16, 'thorough')]:
    HARNESSES.append(('k_unarmor_%d' % _n, 'messages/mod.rs', ['C03', 'C01'], 'bounded',
                      'cross-check of the Verus proof: unarmor, %d characters, all contents, fill 0..=5, every output bit against the reference packing' % _n, _unw, 900))


# complete harnesses that discharge the whole contract of a function on their own: if Verus cannot decide that function
# (lost anchor, construct outside its subset) the Kani result stands in for it
COVERS = {
    'k_message_type': ['messages/parsers.rs::message_type', 'messages/parsers.rs::message_type_bits'],
    'k_radio_sotdma': ['messages/radio_status.rs::impl SotdmaMessage::parse', 'messages/radio_status.rs::impl SubMessage::parse', 'messages/radio_status.rs::impl SubMessage::utc_hour_and_minute',
                       'messages/radio_status.rs::impl SubMessage::slot_offset', 'messages/radio_status.rs::impl SubMessage::subm_u16'],
    'k_radio_itdma': ['messages/radio_status.rs::impl ItdmaMessage::parse'],
    'k_radio_dispatch': ['messages/radio_status.rs::parse_radio'],
    'k_rot_parse': ['messages/navigation.rs::impl RateOfTurn::parse'],
    'k_signed_i32': ['messages/parsers.rs::signed_i32'],
}

# properties whose checks re-validate the assumed nom contracts (the others rely on the same shim and say so)
SHIM_PROPS = ('C01', 'C04')


def log_null(_):
    pass


def _fragments(variant='std'):
    out = {}
    d = os.path.join(ROOT, 'kani') if variant == 'std' else os.path.join(ROOT, 'kani', variant)
    for f in sorted(os.listdir(d)):
        if f.endswith('.rs'):
            out[f] = open(os.path.join(d, f)).read()
    return out


FRAG_TARGET = {'parsers.rs': 'messages/parsers.rs', 'navigation.rs': 'messages/navigation.rs', 'types.rs': 'messages/types.rs',
               'sentence.rs': 'sentence.rs', 'mod.rs': 'messages/mod.rs', 'shimval.rs': 'lib.rs', 'radio_status.rs': 'messages/radio_status.rs', 'bin_aisparser.rs': 'bin/aisparser.rs', 'layout.rs': 'lib.rs'}


def prepare_crate(work, variant='std'):
    kc = os.path.join(work, 'kcrate')
    if os.path.exists(kc):
        shutil.rmtree(kc)
    os.makedirs(kc)
    shutil.copytree(os.path.join(REPO, 'src'), os.path.join(kc, 'src'))
    shutil.copy(os.path.join(REPO, 'Cargo.toml'), os.path.join(kc, 'Cargo.toml'))
    # Cargo.lock is not tracked by the repository: use the working tree's if there is one, else the copy kept with the harnesses
    # (same resolved versions as the pinned baseline), else let cargo resolve offline from the registry cache
    for cand in (os.path.join(REPO, 'Cargo.lock'), os.path.join(ROOT, 'kani', 'Cargo.lock')):
        if os.path.exists(cand):
            shutil.copy(cand, os.path.join(kc, 'Cargo.lock'))
            break
    os.makedirs(os.path.join(kc, '.cargo'))
    open(os.path.join(kc, '.cargo', 'config.toml'), 'w').write('[net]\noffline = true\n')
    frs = _fragments(variant)
    if variant != 'alloc':
        import klayout
        frs['layout.rs'] = klayout.generate(variant)
    for frag, text in frs.items():
        tgt = FRAG_TARGET.get(frag)
        if not tgt:
            continue
        p = os.path.join(kc, 'src', tgt)
        with open(p, 'a') as fh:
            fh.write('\n#[cfg(kani)]\nmod verif_k_%s {\n%s\n}\n' % (frag[:-3], text))
    return kc


def tree_hash(kc):
    h = hashlib.sha256()
    for base, _d, files in sorted(os.walk(os.path.join(kc, 'src'))):
        for f in sorted(files):
            h.update(f.encode())
            h.update(open(os.path.join(base, f), 'rb').read())
    return h.hexdigest()


def run_harnesses(names, work, log, extra_args=(), timeout=1200, jobs=8, target='--lib'):
    """one cargo-kani invocation for the harnesses that have no memoised result for this exact crate tree; returns {name: dict(status, time_s, output)}"""
    variant = 'std'
    if '--no-default-features' in extra_args:
        variant = 'alloc' if 'alloc' in extra_args else 'noalloc'
    kc = prepare_crate(work, variant)
    th = tree_hash(kc)

    def cpath(n):
        return os.path.join(CACHE, 'kani1-' + hashlib.sha256((th + ' ' + n + ' ' + ' '.join(extra_args) + target).encode()).hexdigest() + '.json')
    done = {}
    if not os.environ.get('VERIF_NO_CACHE'):
        for n in names:
            if os.path.exists(cpath(n)):
                v = json.load(open(cpath(n)))
                v['cached'] = True
                done[n] = v
    todo = [n for n in names if n not in done]
    if done:
        log('kani: %d memoised result(s) for this crate tree, %d to run' % (len(done), len(todo)))
    if not todo:
        return done
    res = _run_harnesses_now(kc, todo, work, log, extra_args, timeout, jobs, target)
    for n, v in res.items():
        if v['status'] in ('success', 'failed'):
            os.makedirs(CACHE, exist_ok=True)
            json.dump(v, open(cpath(n), 'w'))
    res.update(done)
    return res


def _run_harnesses_now(kc, names, work, log, extra_args, timeout, jobs, target):
    cmd = ['cargo', 'kani'] + target.split() + ['-Z', 'function-contracts', '-Z', 'stubbing', '-j', str(jobs), '--output-format', 'terse'] + list(extra_args)
    for n in names:
        cmd += ['--harness', n]
    env = dict(os.environ, CARGO_NET_OFFLINE='true', CARGO_TARGET_DIR=os.path.join(work, 'ktarget'))
    t = time.time()
    # own session: on timeout the whole process group (cargo-kani, kani-driver, every cbmc) is killed, not only the direct child
    import signal
    pr = subprocess.Popen(cmd, cwd=kc, stdout=subprocess.PIPE, stderr=subprocess.PIPE, text=True, env=env, start_new_session=True)
    try:
        so, se = pr.communicate(timeout=timeout)
        out = so + '\n' + se
        timed_out = False
    except subprocess.TimeoutExpired:
        try:
            os.killpg(pr.pid, signal.SIGKILL)
        except Exception:
            pass
        so, se = pr.communicate()
        out = (so or '') + '\n' + (se or '')
        timed_out = True
    wall = time.time() - t
    log('kani: %d harnesses in %.1fs%s' % (len(names), wall, ' (TIMEOUT)' if timed_out else ''))
    res = {}
    # with -j the output is interleaved: "Thread N: Checking harness X..." ... "Thread N: " + result block
    for n in names:
        res[n] = dict(status='unknown', time_s=None, output='', cached=False)
    cur = {}          # thread -> harness
    blocks = {}       # harness -> text
    active = None
    for line in out.split('\n'):
        m = re.match(r'(?:Thread (\d+): )?Checking harness ([A-Za-z0-9_:]+)', line)
        if m:
            th = m.group(1) or '0'
            hn = m.group(2).split('::')[-1].rstrip('.')
            cur[th] = hn
            blocks.setdefault(hn, '')
            active = hn
            continue
        m = re.match(r'Thread (\d+): ?(.*)', line)
        if m:
            active = cur.get(m.group(1))
            line = m.group(2)
        if active:
            blocks[active] = blocks.get(active, '') + line + '\n'
    for hn, b in blocks.items():
        if hn not in res:
            continue
        st = 'unknown'
        if 'VERIFICATION:- SUCCESSFUL' in b:
            st = 'success'
        elif 'VERIFICATION:- FAILED' in b:
            # a refutation needs a failed property in CBMC's own result; a solver that was killed or crashed is 'unknown'
            mf = re.search(r'\*\* (\d+) of \d+ failed', b)
            st = 'failed' if ('Failed Checks:' in b or (mf and int(mf.group(1)) > 0)) and 'unsupported' not in b.lower().split('failed checks:')[-1][:300] else 'unknown'
        if st == 'success' and re.search(r'cover properties satisfied', b):
            mc = re.search(r'\*\* (\d+) of (\d+) cover properties satisfied', b)
            if mc and mc.group(1) != mc.group(2):
                st = 'failed'     # an unreachable cover = vacuous harness
        if st == 'failed':
            fcs_ = [x.strip() for x in re.findall(r'Failed Checks: (.*)', b)]
            if fcs_ and all('unwinding assertion' in x for x in fcs_):
                st = 'unknown'     # the harness's unwind bound does not cover the (changed) code: undecided, never an alarm
        tm = re.search(r'Verification Time: ([0-9.]+)s', b)
        res[hn] = dict(status=st, time_s=float(tm.group(1)) if tm else None, output=b[-3000:], cached=False,
                       failed_checks=[x.strip() for x in re.findall(r'Failed Checks: (.*)', b)][:12])
    # summary lines in -j mode: "Verification failed for - X" / "Complete - N successfully verified harnesses, M failures"
    for m in re.finditer(r'Verification failed for - ([A-Za-z0-9_:]+)', out):
        hn = m.group(1).split('::')[-1]
        if hn in res and res[hn]['status'] == 'success':
            res[hn]['status'] = 'unknown'
    ms = re.search(r'Complete - (\d+) successfully verified harnesses, (\d+) failures, (\d+) total', out)
    if ms and int(ms.group(2)) == 0 and int(ms.group(1)) == len(names) and not timed_out:
        for n in names:
            if res[n]['status'] == 'unknown':
                res[n]['status'] = 'success'
    if timed_out:
        for n in names:
            if res[n]['status'] == 'unknown':
                res[n]['status'] = 'timeout'
    if all(v['status'] == 'unknown' for v in res.values()):
        for n in names:
            res[n]['output'] = out[-4000:]
    return res


def run_for_property(prop, tier, work, log):
    if prop == 'C18':
        import klayout
        sel = [h for h in NOALLOC if h[5] == 'quick' or tier == 'thorough']
        # the per-type layout harnesses under the no-allocator configuration: the fields the std build is proved to decode are
        # decoded identically by the heapless build (bounded: one concrete length per type)
        slow = ('k_layout_t1', 'k_layout_t4', 'k_layout_t11', 'k_layout_t9', 'k_layout_t18', 'k_layout_t17')
        for (name, rel, domain) in klayout.harness_table():
            if tier == 'thorough' or name not in slow:
                sel.append((name, 'lib.rs', ['C18'], 'bounded', 'no-allocator build: ' + domain, 'quick', 2400))
        return _run_sel(sel, work, log, extra_args=['--no-default-features'], prop=prop)
    sel = [h for h in HARNESSES if (prop in h[2] or (h[3] == 'shimval' and prop in SHIM_PROPS)) and (h[5] == 'quick' or tier == 'thorough')]
    if tier == 'thorough' and prop in ('C01', 'C04', 'C10', 'C11', 'C12', 'C15'):
        # independent bounded cross-check of the Verus layout proofs: the real per-type parsers on one concrete length each
        import klayout
        for (name, rel, domain) in klayout.harness_table():
            sel.append((name, 'lib.rs', [prop], 'bounded', domain, 'thorough', 2400))
    out = _run_sel(sel, work, log, prop=prop)
    if prop in ('C08', 'C01'):
        o2 = _run_sel(list(ALLOC_SHIM), work, log, extra_args=['--no-default-features', '--features', 'alloc'])
        out['shimval'] += o2['shimval']
        out['undecided'] += o2['undecided']
    return out


def labels_concern(failed_checks, prop):
    """the generated layout harnesses label every assert with the properties the field belongs to ("C10+C11:longitude"); a failed harness
    concerns `prop` if one of its failed checks carries that label, or - for C01 / C18 - if any check failed at all (a panic, an overflow or
    any field difference between configurations)"""
    failed_checks = [l.strip().strip('"') for l in failed_checks]
    lab = [l for l in failed_checks if re.match(r'C\d\d', l)]
    if prop == 'C18':
        return True
    if prop == 'C01':
        # totality: only a panic / overflow / out-of-bounds check counts, not a field that decodes to the wrong value
        return any(not re.match(r'C\d\d', l) for l in failed_checks) or not failed_checks
    if not lab:
        return False
    return any(prop in l.split(':')[0].split('+') for l in lab)


def _run_sel(sel, work, log, extra_args=(), prop=None):
    out = dict(obligations=[], discharged=[], failures=[], undecided=[], bounded=[], backend=None, shimval=[])
    if not sel:
        return out
    res = run_harnesses([h[0] for h in sel], work, log, timeout=max(h[6] for h in sel) + 600, extra_args=extra_args)
    total = 0.0
    for (name, f, props, kind, domain, _tier, _to) in sel:
        r = res.get(name, dict(status='unknown', output=''))
        total += r.get('time_s') or 0
        ob = ('kani:%s::%s' % (f, name), '%s — %s' % (kind, domain))
        if kind == 'shimval':
            out['shimval'].append(dict(harness=name, domain=domain, status=r['status']))
            if r['status'] != 'success':
                out['undecided'].append('assumed nom contract not validated: %s (%s)' % (name, r['status']))
            continue
        if kind == 'bounded':
            # never counted as proved; a failure is still a refutation with a trace
            entry = dict(obligation=ob[0], bound=domain, engine='kani/cbmc', status=r['status'])
            out['bounded'].append(entry)
            if r['status'] == 'failed':
                fcs = r.get('failed_checks') or re.findall(r'Failed Checks: (.*)', r['output'])
                if name.startswith('k_layout_') and prop and not labels_concern(fcs, prop):
                    log('kani: %s fails, but only on fields of other properties (%s): not a finding of %s' % (name, '; '.join(fcs[:3]), prop))
                    entry['status'] = 'failed on fields of other properties only'
                else:
                    out['failures'].append(dict(ob=ob[0], engine='kani', output=r['output'], tags=props))
            elif r['status'] != 'success':
                out['undecided'].append('%s: %s' % (ob[0], r['status']))
            continue
        out['obligations'].append(ob)
        if r['status'] == 'success':
            out['discharged'].append(ob)
        elif r['status'] == 'failed':
            out['failures'].append(dict(ob=ob[0], engine='kani', output=r['output'], tags=props))
        else:
            out['undecided'].append('%s: %s\n%s' % (ob[0], r['status'], r.get('output', '')[-600:]))
    out['covered_fns'] = [q for (name, *_r) in sel if res.get(name, {}).get('status') == 'success' for q in COVERS.get(name, [])]
    out['backend'] = dict(harnesses=len(sel), solver_s=round(total, 2), from_cache=any(r.get('cached') for r in res.values()),
                          results={n: res[n]['status'] for n in res})
    return out


def layout_fallback(relpaths, work, log):
    """run the generated per-type layout harnesses for the given message files, one at a time with concrete playback;
    returns {relpath: dict(harness, status, bytes or None, output)}"""
    import klayout
    out = {}
    for (name, rel, domain) in klayout.harness_table():
        if rel not in relpaths:
            continue
        res = run_harnesses([name], os.path.join(work, 'kfb'), log, timeout=int(os.environ.get('VERIF_FALLBACK_TIMEOUT', '700')), jobs=1, extra_args=['-Z', 'concrete-playback', '--concrete-playback=print'])
        r = res[name]
        vals = None
        if r['status'] == 'failed':
            m = re.search(r'let concrete_vals: Vec<Vec<u8>> = vec!\[(.*?)\];', r['output'], re.S)
            if m:
                vals = [int(x) for x in re.findall(r'vec!\[(\d+)\]', m.group(1))]
        failed_checks = r.get('failed_checks') or re.findall(r'Failed Checks: (.*)', r['output'])
        out[rel] = dict(harness=name, status=r['status'], bytes=vals, domain=domain, failed_checks=failed_checks[:5], output=r['output'][-2500:])
    return out


def concrete_playback(name, work, log, extra_args=()):
    """re-run one failed harness alone with Kani's concrete playback; returns (list of concrete byte vectors or None, failed checks)"""
    res = run_harnesses([name], os.path.join(work, 'kpb'), log, timeout=600, jobs=1,
                        extra_args=list(extra_args) + ['-Z', 'concrete-playback', '--concrete-playback=print'])
    r = res[name]
    vals = None
    m = re.search(r'let concrete_vals: Vec<Vec<u8>> = vec!\[(.*?)\];', r['output'], re.S)
    if m:
        vals = [[int(x) for x in re.findall(r'\d+', v)] for v in re.findall(r'vec!\[([^\]]*)\]', m.group(1))]
    return vals, (r.get('failed_checks') or re.findall(r'Failed Checks: (.*)', r['output']))[:5]
