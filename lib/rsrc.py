"""Minimal Rust source handling for the extractor/injector.

Nothing here understands Rust beyond what is needed to (a) tell code from comments / string
literals, (b) match brackets, (c) find `fn` items and `#[cfg(test)] mod` blocks, (d) apply and
undo positional edits.  Everything that cannot be located raises LostAnchor (=> exit 2, undecided).
"""
import re


class LostAnchor(Exception):
    pass


def code_mask(text):
    """mask[i] == True iff text[i] is code (not inside a comment, string, byte string or char literal)."""
    n = len(text)
    mask = [True] * n
    i = 0
    while i < n:
        c = text[i]
        if text.startswith('//', i):
            j = text.find('\n', i)
            j = n if j < 0 else j
            for k in range(i, j):
                mask[k] = False
            i = j
        elif text.startswith('/*', i):
            depth, j = 1, i + 2
            while j < n and depth:
                if text.startswith('/*', j):
                    depth += 1; j += 2
                elif text.startswith('*/', j):
                    depth -= 1; j += 2
                else:
                    j += 1
            for k in range(i, j):
                mask[k] = False
            i = j
        elif c == '"' or (c == 'b' and text.startswith('b"', i) and (i == 0 or not (text[i-1].isalnum() or text[i-1] == '_'))):
            j = i + (2 if c == 'b' else 1)
            while j < n and text[j] != '"':
                j += 2 if text[j] == '\\' else 1
            j += 1
            for k in range(i, min(j, n)):
                mask[k] = False
            i = j
        elif c == 'r' and re.match(r'r#*"', text[i:i+8]) and (i == 0 or not (text[i-1].isalnum() or text[i-1] == '_')):
            m = re.match(r'r(#*)"', text[i:])
            close = '"' + m.group(1)
            j = text.find(close, i + len(m.group(0)))
            j = n if j < 0 else j + len(close)
            for k in range(i, j):
                mask[k] = False
            i = j
        elif c == "'":
            # char literal or lifetime
            m = re.match(r"'(\\.[^']*|[^\\'])'", text[i:i+12])
            if m:
                for k in range(i, i + len(m.group(0))):
                    mask[k] = False
                i += len(m.group(0))
            else:
                i += 1
        else:
            i += 1
    return mask


OPEN = {'(': ')', '[': ']', '{': '}'}
CLOSE = {v: k for k, v in OPEN.items()}


def match_bracket(text, mask, pos):
    """text[pos] is an opening bracket in code; return index of its partner."""
    stack = []
    i = pos
    n = len(text)
    while i < n:
        if mask[i]:
            c = text[i]
            if c in OPEN:
                stack.append(c)
            elif c in CLOSE:
                if not stack or stack[-1] != CLOSE[c]:
                    raise LostAnchor('unbalanced bracket at %d' % i)
                stack.pop()
                if not stack:
                    return i
        i += 1
    raise LostAnchor('unterminated bracket at %d' % pos)


def find_code(text, mask, needle, start=0, end=None):
    """first occurrence of literal needle whose first char is code."""
    end = len(text) if end is None else end
    i = start
    while True:
        i = text.find(needle, i, end)
        if i < 0:
            return -1
        if mask[i]:
            return i
        i += 1


def strip_tests_and_innerdocs(text):
    """Drop `#[cfg(test)] mod X { .. }` blocks, `//!` inner doc lines and `#![..]` inner attributes.
    Returns (stripped_text, dropped) where dropped is a list of (kind, text) for the record."""
    dropped = []
    # 1. test modules
    while True:
        mask = code_mask(text)
        m = None
        for mm in re.finditer(r'#\[cfg\(test\)\]\s*(pub\s+)?mod\s+\w+\s*\{', text):
            if mask[mm.start()]:
                m = mm
                break
        if not m:
            break
        close = match_bracket(text, mask, m.end() - 1)
        dropped.append(('test-module', text[m.start():close + 1]))
        text = text[:m.start()] + text[close + 1:]
    # 2. inner doc comments and inner attributes (line granularity)
    out = []
    for line in text.split('\n'):
        s = line.lstrip()
        if s.startswith('//!'):
            dropped.append(('inner-doc', line))
            continue
        if s.startswith('#!['):
            dropped.append(('inner-attr', line))
            continue
        out.append(line)
    return '\n'.join(out), dropped


class FnRef:
    """positions of one `fn` item inside a text"""
    def __init__(self, name, kw, params_open, params_close, arrow, ret_start, ret_end, where_start, body_open, body_close):
        self.name = name
        self.kw = kw                      # index of 'fn'
        self.params_open = params_open
        self.params_close = params_close
        self.arrow = arrow                # index of '->' or -1
        self.ret_start = ret_start        # return type span (or -1)
        self.ret_end = ret_end
        self.where_start = where_start    # index of 'where' or -1
        self.body_open = body_open        # index of '{' or -1 (trait declaration ending in ';')
        self.body_close = body_close


def _skip_generics(text, mask, i):
    """text[i] == '<' : return index just past the matching '>' (ignores '->')."""
    depth = 0
    n = len(text)
    while i < n:
        if mask[i]:
            c = text[i]
            if c == '<':
                depth += 1
            elif c == '>' and text[i-1] != '-':
                depth -= 1
                if depth == 0:
                    return i + 1
            elif c in OPEN:
                i = match_bracket(text, mask, i)
        i += 1
    raise LostAnchor('unterminated generics')


def find_fns(text, mask=None, start=0, end=None):
    """all fn items (any nesting level) in text[start:end], in source order."""
    mask = mask or code_mask(text)
    end = len(text) if end is None else end
    out = []
    for m in re.finditer(r'\bfn\s+([A-Za-z_]\w*)', text[start:end]):
        kw = start + m.start()
        if not mask[kw]:
            continue
        i = start + m.end()
        while text[i].isspace():
            i += 1
        if text[i] == '<':
            i = _skip_generics(text, mask, i)
            while text[i].isspace():
                i += 1
        if text[i] != '(':
            continue
        po = i
        pc = match_bracket(text, mask, po)
        # scan to body '{' or ';' at depth 0 (angle-bracket aware, '->' ignored)
        i = pc + 1
        arrow = -1
        where = -1
        adepth = 0
        body_open = -1
        clause_mode = False     # inside injected requires / ensures / decreases clauses: `<` is a comparison there
        while i < end:
            if mask[i]:
                c = text[i]
                if not clause_mode and adepth == 0 and re.match(r'(requires|ensures|decreases)\b', text[i:i+10]) and not (text[i-1].isalnum() or text[i-1] == '_'):
                    clause_mode = True
                if clause_mode:
                    if c in '([':
                        i = match_bracket(text, mask, i)
                    elif c == '{':
                        j = i - 1
                        while j >= 0 and text[j].isspace():
                            j -= 1
                        if text[j] == ',':
                            body_open = i
                            break
                        i = match_bracket(text, mask, i)
                    i += 1
                    continue
                if text.startswith('->', i) and arrow < 0:
                    arrow = i
                    i += 2
                    continue
                if c == '<':
                    adepth += 1
                elif c == '>' and text[i-1] != '-':
                    adepth -= 1
                elif c in '([':
                    i = match_bracket(text, mask, i)
                elif c == '{' and adepth == 0:
                    body_open = i
                    break
                elif c == ';' and adepth == 0:
                    break
                elif adepth == 0 and re.match(r'\bwhere\b', text[i:i+6]) and (not (text[i-1].isalnum() or text[i-1] == '_')):
                    if where < 0:
                        where = i
            i += 1
        term = i
        ret_start = ret_end = -1
        if arrow >= 0:
            ret_start = arrow + 2
            while text[ret_start].isspace():
                ret_start += 1
            ret_end = where if where >= 0 else term
            while text[ret_end - 1].isspace():
                ret_end -= 1
        body_close = match_bracket(text, mask, body_open) if body_open >= 0 else term
        out.append(FnRef(m.group(1), kw, po, pc, arrow, ret_start, ret_end, where, body_open, body_close))
    return out


def find_impl_blocks(text, mask=None):
    """[(header_text, open_brace, close_brace)] for every `impl ... {` and `trait ... {` block."""
    mask = mask or code_mask(text)
    out = []
    for m in re.finditer(r'\b(impl|trait)\b', text):
        if not mask[m.start()]:
            continue
        # must be at item position: preceded by start/whitespace/`pub `/`unsafe `
        j = m.start() - 1
        while j >= 0 and text[j] in ' \t':
            j -= 1
        if j >= 0 and text[j] not in '\n})];' and not text[:j+1].rstrip().endswith(('pub', 'unsafe')):
            continue
        i = m.end()
        adepth = 0
        ob = -1
        while i < len(text):
            if mask[i]:
                c = text[i]
                if c == '<':
                    adepth += 1
                elif c == '>' and text[i-1] != '-':
                    adepth -= 1
                elif c in '([':
                    i = match_bracket(text, mask, i)
                elif c == '{' and adepth <= 0:
                    ob = i
                    break
                elif c == ';' and adepth <= 0:
                    break
            i += 1
        if ob < 0:
            continue
        cb = match_bracket(text, mask, ob)
        out.append((' '.join(text[m.start():ob].split()), ob, cb))
    return out


class Edits:
    """positional edits over one immutable base text; apply() builds the result, undo-check built in."""
    def __init__(self, base):
        self.base = base
        self.mask = code_mask(base)
        self.edits = []   # (start, end, new, kind, note)

    def replace(self, start, end, new, kind, note=''):
        for (s, e, _, _, _) in self.edits:
            if not (end <= s or start >= e) and not (start == end and (start == s or start == e)) and not (s == e and (s == start or s == end)):
                raise LostAnchor('overlapping edits at %d..%d (%s)' % (start, end, note))
        self.edits.append((start, end, new, kind, note))

    def insert(self, pos, new, kind, note=''):
        self.replace(pos, pos, new, kind, note)

    def apply(self):
        out = []
        cur = 0
        spans = []   # (out_start, out_end, original_text, kind)
        pos_out = 0
        # stable sort: by start, insertions at same point keep registration order
        for (s, e, new, kind, note) in sorted(self.edits, key=lambda t: (t[0], t[1])):
            if s < cur:
                raise LostAnchor('overlapping edits (%s)' % note)
            out.append(self.base[cur:s]); pos_out += s - cur
            spans.append((pos_out, pos_out + len(new), self.base[s:e], kind))
            out.append(new); pos_out += len(new)
            cur = e
        out.append(self.base[cur:])
        result = ''.join(out)
        # round trip: undo the edits on the result, must give back the base
        back = []
        cur = 0
        for (os_, oe, orig, kind) in spans:
            back.append(result[cur:os_]); back.append(orig); cur = oe
        back.append(result[cur:])
        if ''.join(back) != self.base:
            raise LostAnchor('round-trip check failed')
        return result, spans
