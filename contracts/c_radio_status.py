"""contracts for src/messages/radio_status.rs — communication state per ITU-R M.1371-5 3.3.7.2.2 / 3.3.7.3.2 (C16)"""
from common import PROLOGUE, CUR, leaf_post

SPEC = '''
// ---- C16: SOTDMA / ITDMA communication state, 19 bits starting at bit q --------------------------
/// synchronisation state: 0 UTC direct, 1 UTC indirect, 2 base station, 3 number of received stations
pub open spec fn sync_spec(d: u8) -> SyncState {
    if d == 0 { SyncState::UtcDirect } else if d == 1 { SyncState::UtcIndirect } else if d == 2 { SyncState::BaseStation }
    else if d == 3 { SyncState::NumberOfReceivedStations } else { SyncState::Unknown(d) }
}
pub proof fn sync_injective(a: u8, b: u8) requires sync_spec(a) == sync_spec(b) ensures a == b {}

/// the 14-bit sub message at bit q, selected by the slot time-out t:
///   0 slot offset; 1 UTC hour (5 bits) and minute; 2/4/6 slot number; 3/5/7 received stations.
/// Minute: M.1371 gives 7 bits (8..2), the implementation and the gpsd description read hour 5, spare 1,
/// minute 6, spare 2; the two agree on every valid minute (0..59), and the contract pins the 6-bit reading
/// (see DESIGN.md, C16).
pub open spec fn submsg_at(o: Seq<u8>, q: int, t: int, sm: SubMessage) -> bool {
    if t == 0 { sm == SubMessage::SlotOffset(fld(o, q, 14) as i16) }
    else if t == 1 { sm == SubMessage::UtcHourAndMinute(fld(o, q, 5) as u8, fld(o, q + 6, 6) as u8) }
    else if t == 2 || t == 4 || t == 6 { sm == SubMessage::SlotNumber(fld(o, q, 14) as u16) }
    else { sm == SubMessage::ReceivedStations(fld(o, q, 14) as u16) }
}
pub open spec fn sotdma_at(o: Seq<u8>, q: int, rs: RadioStatus) -> bool {
    &&& rs is Sotdma
    &&& rs->Sotdma_0.sync_state == sync_spec(fld(o, q, 2) as u8)
    &&& rs->Sotdma_0.slot_timeout == fld(o, q + 2, 3)
    &&& submsg_at(o, q + 5, fld(o, q + 2, 3), rs->Sotdma_0.sub_message)
}
pub open spec fn itdma_at(o: Seq<u8>, q: int, rs: RadioStatus) -> bool {
    &&& rs is Itdma
    &&& rs->Itdma_0.sync_state == sync_spec(fld(o, q, 2) as u8)
    &&& rs->Itdma_0.slot_increment == fld(o, q + 2, 13)
    &&& rs->Itdma_0.num_slots == fld(o, q + 15, 3)
    &&& rs->Itdma_0.keep == (fld(o, q + 18, 1) == 1)
}

''' + leaf_post('submsg_post', 'SubMessage', 14, 'submsg_at(orig, p, t, x)', params='t: int, ', cur='input') \
    + leaf_post('sotdma_post', 'RadioStatus', 19, 'sotdma_at(orig, p, x)') \
    + leaf_post('itdma_post', 'RadioStatus', 19, 'itdma_at(orig, p, x)') + '''
/// which access scheme a message type uses when it has no selector bit: 1, 2, 4, 11 SOTDMA; 3 ITDMA
pub open spec fn radio_post(input: (&[u8], usize), t: u8, r: nom::IResult<(&[u8], usize), RadioStatus>) -> bool {
    &&& (t == 1 || t == 2 || t == 4 || t == 11 ==> sotdma_post(input, r))
    &&& (t == 3 ==> itdma_post(input, r))
    // helper (from the code, not from M.1371): type 9 is routed to SOTDMA without looking at the selector bit
    &&& (t == 9 ==> sotdma_post(input, r))
    &&& (r is Ok ==> cur_ok(r->Ok_0.0))
}
''' + '''
''' + leaf_post('subm_u16_post', 'u16', 14, 'x == v') + '''
/// C12 names the synchronisation state among the enumerated code fields: where the two communication-state parsers read it from (the
/// first two of the 19 bits) is an obligation of C12 too, stated on its own so that a wrong slot field does not alarm C12
pub open spec fn sotdma_sync_C12(data: (&[u8], usize), r: nom::IResult<(&[u8], usize), RadioStatus>) -> bool {
    forall|orig: Seq<u8>, p: int| #[trigger] at(orig, data, p) ==>
        (r is Ok && r->Ok_0.1 is Sotdma && 8 * orig.len() - p >= 19 ==> r->Ok_0.1->Sotdma_0.sync_state == sync_spec(fld(orig, p, 2) as u8))
}
pub open spec fn itdma_sync_C12(data: (&[u8], usize), r: nom::IResult<(&[u8], usize), RadioStatus>) -> bool {
    forall|orig: Seq<u8>, p: int| #[trigger] at(orig, data, p) ==>
        (r is Ok && r->Ok_0.1 is Itdma && 8 * orig.len() - p >= 19 ==> r->Ok_0.1->Itdma_0.sync_state == sync_spec(fld(orig, p, 2) as u8))
}
'''


def apply(fc):
    fc.add_prologue(PROLOGUE)
    fc.add_epilogue(SPEC)
    fc.contract('parse', within='impl SyncState', ensures=['r == sync_spec(data)'], tags=['C12', 'C16'])
    fc.lemma('sync_injective', ['C12'])
    fc.contract('parse', within='impl SubMessage', requires=['cur_ok(input)', 'slot_timeout <= 7'], ensures=['submsg_post(input, slot_timeout as int, r)'], tags=['C16'])
    fc.contract('utc_hour_and_minute', within='impl SubMessage', requires=['cur_ok(data)'], ensures=['submsg_post(data, 1, r)'], tags=['C16'])
    fc.contract('slot_offset', within='impl SubMessage', requires=['cur_ok(data)'], ensures=['submsg_post(data, 0, r)'], tags=['C16'])
    fc.contract('subm_u16', within='impl SubMessage', requires=['cur_ok(data)'], ensures=['subm_u16_post(data, r)'], tags=['C16'])
    fc.contract('parse', within='impl SotdmaMessage', requires=['cur_ok(data)'], ensures=['sotdma_post(data, r)', 'sotdma_sync_C12(data, r)'], tags=['C16'])
    fc.contract('parse', within='impl ItdmaMessage', requires=['cur_ok(data)'], ensures=['itdma_post(data, r)', 'itdma_sync_C12(data, r)'], tags=['C16'])
    fc.contract('parse_radio', requires=['cur_ok(input)'], ensures=['radio_post(input, msg_type, r)'], tags=['C16'])
