"""contracts for src/messages/navigation.rs"""
from common import PROLOGUE

SPEC = '''
// ---- tables written from ITU-R M.1371-5 (C11 / C12) ----------------------------------------
/// position accuracy flag: 0 = low (unaugmented GNSS), 1 = high (DGPS)
pub open spec fn accuracy_spec(d: u8) -> Accuracy { if d == 0 { Accuracy::Unaugmented } else { Accuracy::Dgps } }

/// rate of turn: -128 (0x80) 'not available', otherwise the signed 8-bit value
pub closed spec fn rot_spec(d: u8) -> Option<RateOfTurn> {
    if d == 128 { None } else { Some(RateOfTurn { raw: if d >= 128 { (d - 256) as i8 } else { d as i8 } }) }
}
pub closed spec fn rot_raw(r: RateOfTurn) -> int { r.raw as int }
pub proof fn rot_spec_facts(d: u8)
    ensures rot_spec(d) is None <==> d == 128, rot_spec(d) is Some ==> rot_raw(rot_spec(d)->Some_0) == sext(d as int, 8),
{}

/// special manoeuvre indicator: 0 not available, 1 not engaged, 2 engaged, 3 unassigned
pub open spec fn maneuver_spec(d: u8) -> Option<ManeuverIndicator> {
    if d == 0 { None } else if d == 1 { Some(ManeuverIndicator::NoSpecialManeuver) } else if d == 2 { Some(ManeuverIndicator::SpecialManeuver) } else { Some(ManeuverIndicator::Unknown(d)) }
}
pub open spec fn heading_spec(d: u16) -> Option<u16> { if d == 511 { None } else { Some(d) } }

pub proof fn maneuver_injective(a: u8, b: u8)
    requires maneuver_spec(a) == maneuver_spec(b), maneuver_spec(a) is Some
    ensures a == b
{}
'''

F32 = 'proof { crate::vspec::f32ax::f32_det(); }'


def apply(fc):
    fc.add_prologue(PROLOGUE)
    fc.add_epilogue(SPEC)
    for fn, rel in [('parse_speed_over_ground', 'sog_rel'), ('parse_longitude', 'lon_rel'), ('parse_latitude', 'lat_rel'), ('parse_cog', 'cog_rel')]:
        fc.contract(fn, ensures=['%s(data, r)' % rel], tags=['C10', 'C11'])
        fc.body_prefix(fn, F32)
    fc.contract('parse_heading', ensures=['r == heading_spec(data)'], tags=['C11', 'C04'])
    fc.contract('parse', within='impl Accuracy', requires=['data <= 1'], ensures=['r == accuracy_spec(data)'], tags=['C12'])
    # `128 => None` on an i8 scrutinee (overflowing literal) is rejected by Verus: assumed here, K complete over all 256 codes
    fc.contract('parse', within='impl RateOfTurn', ensures=['r == rot_spec(data)'], external_body=True, tags=['C11'])
    fc.contract('rate', within='impl RateOfTurn', requires=['rot_raw(self) != -128'])
    fc.body_prefix('rate', F32, within='impl RateOfTurn')
    fc.contract('direction', within='impl RateOfTurn', requires=['rot_raw(self) != -128'])
    fc.contract('parse', within='impl ManeuverIndicator', ensures=['r == maneuver_spec(data)'], tags=['C12'])
    fc.lemma('maneuver_injective', ['C12'])
    fc.lemma('rot_spec_facts', ['C11'])
