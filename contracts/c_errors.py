"""contracts for src/errors.rs: conversions into Error are assumed to return (formatting is trusted to terminate);
only the category (Nmea) is specified - message texts are outside every property."""
from common import PROLOGUE


def apply(fc):
    fc.add_prologue(PROLOGUE)
    fc.attr_before_item('impl core::fmt::Display for Error', '#[verifier::external]')
    for w in ['impl From<&str> for Error', 'impl From<String> for Error', 'impl From<nom::Err<&[u8]>> for Error',
              'impl From<nom::Err<(&[u8], nom::error::ErrorKind)>> for Error',
              'From<nom::Err<nom::error::Error<T>>> for Error']:
        fc.contract('from', within=w, ensures=['r is Nmea'], external_body=True)
