"""contracts for src/messages/types.rs — code tables from ITU-R M.1371-5 (C12)"""
from common import PROLOGUE

# Table 53 (type of ship and cargo), written out independently of the code
CATS = {2: 'WingInGround', 4: 'HighSpeedCraft', 6: 'Passenger', 7: 'Cargo', 8: 'Tanker', 9: 'Other'}
SPECIAL = {30: 'Fishing', 31: 'Towing', 32: 'TowingLarge', 33: 'Dredging', 34: 'DivingOps', 35: 'MilitaryOps', 36: 'Sailing', 37: 'PleasureCraft',
           50: 'PilotVessel', 51: 'SearchAndRescueVessel', 52: 'Tug', 53: 'PortTender', 54: 'AntiPollutionEquipment', 55: 'LawEnforcement',
           58: 'MedicalTransport', 59: 'NoncombatantShip'}


def ship_variant(c):
    """(variant, carries_code)"""
    if c == 0 or c >= 100:
        return None
    if 1 <= c <= 19 or c in (38, 39):
        return ('Reserved', True)
    if c in SPECIAL:
        return (SPECIAL[c], False)
    if c in (56, 57):
        return ('SpareLocalVessel', True)
    cat = CATS[c // 10]
    d = c % 10
    if d == 0:
        return (cat, False)
    if 1 <= d <= 4:
        return (cat + 'HazardousCategory' + 'ABCD'[d - 1], False)
    if d == 9 and cat != 'WingInGround':
        return (cat + 'NoAdditionalInformation', False)
    return (cat + 'Reserved', True)   # x5..x8 (and 29 for WIG)


def shiptype_spec_text():
    arms = []
    for c in range(1, 100):
        v, carries = ship_variant(c)
        arms.append('if d == %d { Some(ShipType::%s%s) }' % (c, v, '(d)' if carries else ''))
    return 'pub open spec fn shiptype_spec(d: u8) -> Option<ShipType> {\n    ' + ' else\n    '.join(arms) + ' else { None }\n}\n'


SPEC = '''
// ---- C12 tables ----------------------------------------------------------------------------
/// electronic position fixing device: 0 undefined, 1..8 named, 9..14 unassigned (kept), 15 undefined
pub open spec fn epfd_spec(d: u8) -> Option<EpfdType> {
    if d == 0 || d == 15 { None }
    else if d == 1 { Some(EpfdType::Gps) } else if d == 2 { Some(EpfdType::Glonass) } else if d == 3 { Some(EpfdType::CombinedGpsAndGlonass) }
    else if d == 4 { Some(EpfdType::LoranC) } else if d == 5 { Some(EpfdType::Chayka) } else if d == 6 { Some(EpfdType::IntegratedNavigationSystem) }
    else if d == 7 { Some(EpfdType::Surveyed) } else if d == 8 { Some(EpfdType::Galileo) } else { Some(EpfdType::Unknown(d)) }
}
pub proof fn epfd_injective(a: u8, b: u8) requires epfd_spec(a) == epfd_spec(b), epfd_spec(a) is Some ensures a == b {}

''' + shiptype_spec_text() + '''
pub proof fn shiptype_injective(a: u8, b: u8) requires shiptype_spec(a) == shiptype_spec(b), shiptype_spec(a) is Some ensures a == b {}
pub proof fn shiptype_absent(d: u8) ensures shiptype_spec(d) is None <==> (d == 0 || d >= 100) {}

// user impl of a std trait on a primitive: tell vstd this impl makes no claim through FromSpec
impl vstd::std_specs::convert::FromSpecImpl<ShipType> for u8 {
    open spec fn obeys_from_spec() -> bool { false }
    open spec fn from_spec(v: ShipType) -> u8 { 0 }
}

// the derived `Default` (`#[default] NotReady`) is outside the verus! subset: assumed here, checked in K
pub assume_specification[ <Dte as core::default::Default>::default ]() -> (r: Dte)
    ensures r == Dte::NotReady,
;

/// data terminal: 0 ready, 1 not ready (default)
pub open spec fn dte_spec(d: u8) -> Dte { if d == 0 { Dte::Ready } else { Dte::NotReady } }
/// assigned-mode flag: 0 autonomous and continuous, 1 assigned
pub open spec fn assigned_spec(d: u8) -> AssignedMode { if d == 0 { AssignedMode::Autonomous } else { AssignedMode::Assigned } }
'''


def apply(fc):
    fc.add_prologue(PROLOGUE)
    fc.add_epilogue(SPEC)
    fc.contract('parse', within='impl EpfdType', ensures=['r == epfd_spec(data)'], tags=['C12'])
    fc.lemma('epfd_injective', ['C12'])
    fc.lemma('shiptype_injective', ['C12'])
    fc.lemma('shiptype_absent', ['C12'])
    fc.contract('parse', within='impl ShipType', ensures=['r == shiptype_spec(data)'], tags=['C12'])
    # `.unwrap()` of a value that is None for 0 and >= 100: a panicking public conversion outside every listed
    # property (no parser calls it); trait impls cannot carry `requires`, so it is left unverified
    fc.contract('from', within='impl From<u8> for ShipType', external_body=True)
    # round trip (C12): converting back returns the code for 1..=99
    fc.contract('from', within='impl From<ShipType> for u8',
                ensures=['forall|c: u8| 1 <= c <= 99 && #[trigger] shiptype_spec(c) == Some(value) ==> r == c'], tags=['C12'])
    # `unreachable!()` arm needs `value <= 1`, which a trait impl cannot require: assumed here, K complete over {0,1}
    fc.contract('from', within='impl From<u8> for Dte', ensures=['value <= 1 ==> r == dte_spec(value)'], external_body=True, tags=['C12'])
    fc.contract('parse', within='impl AssignedMode', requires=['val <= 1'], ensures=['r == assigned_spec(val)'], tags=['C12'])
