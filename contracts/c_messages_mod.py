from common import PROLOGUE


def apply(fc):
    fc.add_prologue(PROLOGUE)
    fc.contract('parse', external_body=True)
    fc.contract('unarmor', external_body=True)
