"""contracts for src/messages/mod.rs: dispatch (C09) and unarmor (C03)"""
from common import PROLOGUE
import c_msgs


def dispatch_spec():
    tt = c_msgs.type_table()
    out = []
    # C09: the variant is determined by the first six bits; every other value is an error
    arms = []
    for (nums, variant, mod, struct, prefix, tags) in tt:
        cond = ' || '.join('t == %d' % n for n in nums)
        arms.append('    &&& (%s ==> (r is Ok ==> r->Ok_0 is %s))' % (cond, variant))
    supported = ' || '.join('t == %d' % n for (nums, *_r) in tt for n in nums)
    out.append('''
/// C09 (table from the property statement): kind of message per 6-bit type; unsupported types are errors
pub open spec fn dispatch_C09(o: Seq<u8>, r: Result<AisMessage>) -> bool {
    let t = fld(o, 0, 6);
    &&& (o.len() == 0 ==> r is Err)
%s
    &&& (!(%s) ==> r is Err)
    &&& (r is Ok ==> own_type(r->Ok_0) == t)
}
/// the message's own type field
pub open spec fn own_type(m: AisMessage) -> int {
    match m {
%s
    }
}
''' % ('\n'.join(arms), supported, '\n'.join('        AisMessage::%s(x) => x.message_type as int,' % v for (_n, v, *_r) in tt)))
    # composition: the result satisfies the per-type postconditions of the selected parser
    for (nums, variant, mod, struct, prefix, tags) in tt:
        cond = ' || '.join('fld(o, 0, 6) == %d' % n for n in nums)
        for tag in tags:
            out.append('''pub open spec fn dispatch_%s_%s(o: Seq<u8>, r: Result<AisMessage>) -> bool {
    (%s) ==> crate::messages::%s::%s_%s(o, match r { Ok(AisMessage::%s(m)) => Ok(m), _ => Err(()) })
}
''' % (prefix, tag, cond, mod, prefix, tag, variant))
    return '\n'.join(out)


UNARMOR_SPEC = '''
/// C03 (part proved by V for every length): exactly the strings over the armoring alphabet are accepted,
/// and the result has ceil(6n/8) bytes
pub open spec fn all_armor(data: Seq<u8>) -> bool { forall|i: int| 0 <= i < data.len() ==> sixbit(#[trigger] data[i]) is Some }
pub open spec fn unarmor_ok(data: Seq<u8>, fill: int, out: Seq<u8>) -> bool {
    &&& all_armor(data)
    &&& out.len() == (6 * data.len() + 7) / 8
    // the bit stream (MSB first) is the concatenation of the 6-bit values with the last `fill` of those 6n bits, and every
    // bit beyond 6n, forced to zero
    &&& packed(out, data, 6 * (data.len() as int) - fill)
}
pub open spec fn unarmor_C03(data: Seq<u8>, fill: int, r: Result<AisRawData>) -> bool {
    &&& (r is Ok <==> all_armor(data))
    &&& (r is Ok ==> unarmor_ok(data, fill, r->Ok_0@))
}
'''


def dispatch_ensures():
    ens = ['dispatch_C09(unarmored@, r)']
    for (nums, variant, mod, struct, prefix, tags) in c_msgs.type_table():
        for tag in tags:
            ens.append('dispatch_%s_%s(unarmored@, r)' % (prefix, tag))
    return ens


def apply(fc):
    fc.add_prologue(PROLOGUE)
    fc.add_epilogue(dispatch_spec() + UNARMOR_SPEC + '\npub open spec fn dispatch_all(o: Seq<u8>, r: Result<AisMessage>) -> bool {\n    ' + '\n    && '.join(dispatch_ensures()).replace('unarmored@', 'o') + '\n}\n')
    fc.contract('parse', requires=['small(unarmored@.len() as int)'], ensures=dispatch_ensures())
    fc.contract('parse', within='trait AisMessageType', requires=['small(data@.len() as int)'])
    fc.contract('push_unwrap', ensures=['final(list)@ == old(list)@.push(item)'], tags=['C14'])
    fc.contract('unarmor', requires=['small(data@.len() as int)', 'fill_bits <= 5'], ensures=['unarmor_C03(data@, fill_bits as int, r)'], tags=['C03'])
    # the loop proof names locals of unarmor; their names are read from the code so that renaming them is harmless
    import re as _re
    try:
        body = fc.fn_text('unarmor')
    except Exception:
        body = ''
    m_loop = _re.search(r'let mut (\w+) = 0;\s*for (\w+) in data \{', body)
    m_out = _re.search(r'let mut (\w+) = vec!\[0; (\w+)\];', body)
    m_bits = _re.search(r'let (\w+) = data\.len\(\) \* 6;', body)
    if m_loop and m_out and m_bits:
        off, byte = m_loop.group(1), m_loop.group(2)
        out, bc = m_out.group(1), m_out.group(2)
        bits = m_bits.group(1)
        fc.replace_in_re('unarmor', r'for %s in data \{' % byte, '''for %(byte)s in it: data
        invariant
            %(off)s == 6 * it.index@,
            %(out)s.len() == %(bc)s,
            %(bits)s == data.len() * 6,
            %(bc)s == (%(bits)s / 8) + if %(bits)s %% 8 != 0 { 1int } else { 0int },
            it.index@ <= data.len(),
            small(data@.len() as int),
            forall|j: int| 0 <= j < it.index@ ==> sixbit(#[trigger] data@[j]) is Some,
            packed(%(out)s@, data@, 6 * it.index@),
    {
        let ghost out0 = %(out)s@;
        let ghost idx = %(off)s as int / 6;''' % dict(off=off, byte=byte, out=out, bc=bc, bits=bits), kind='loop')
        fc.insert_re('unarmor', r'let mut %s = 0;' % off, 'proof { lemma_zero_packed(%s@, data@); }\n    ' % out)
        fc.insert_re('unarmor', r'if fill_bits != 0\b', 'let ghost out_pre = %s@;\n    ' % out)
        fc.insert_re('unarmor', r'Ok\(%s\)' % out, 'proof { if fill_bits != 0 && %s != 0 { lemma_unarmor_mask_imp(out_pre, %s@, data@, fill_bits as int); } }\n    ' % (bc, out))
        fc.insert_re('unarmor', r'%s \+= 6;' % off, 'proof { lemma_unarmor_step_imp(out0, %s@, data@, idx, sv(*%s)); }\n        ' % (out, byte))
    else:
        fc.lost.append(dict(q='messages/mod.rs::unarmor', relpath='messages/mod.rs', within=None, name='unarmor', tags=['C03'], ensures=[], why='loop shape of unarmor not recognised'))
