"""contracts for src/messages/mod.rs: dispatch (C09) and unarmor (C03)"""
from common import PROLOGUE
import c_msgs


def dispatch_spec():
    tt = c_msgs.type_table()
    out = []
    # C09: the variant is determined by the first six bits; every other value is an error
    arms = []
    for (nums, variant, mod, struct, prefix, tags) in tt:
        cond = ' || '.join('t == %d' % n for n in nums)
        arms.append('    &&& (%s ==> (r is Ok ==> r->Ok_0 is %s))' % (cond, variant))
    supported = ' || '.join('t == %d' % n for (nums, *_r) in tt for n in nums)
    out.append('''
/// C09 (table from the property statement): kind of message per 6-bit type; unsupported types are errors
pub open spec fn dispatch_C09(o: Seq<u8>, r: Result<AisMessage>) -> bool {
    let t = fld(o, 0, 6);
    &&& (o.len() == 0 ==> r is Err)
%s
    &&& (!(%s) ==> r is Err)
    &&& (r is Ok ==> own_type(r->Ok_0) == t)
}
/// the message's own type field
pub open spec fn own_type(m: AisMessage) -> int {
    match m {
%s
    }
}
''' % ('\n'.join(arms), supported, '\n'.join('        AisMessage::%s(x) => x.message_type as int,' % v for (_n, v, *_r) in tt)))
    # composition: the result satisfies the per-type postconditions of the selected parser
    for (nums, variant, mod, struct, prefix, tags) in tt:
        cond = ' || '.join('fld(o, 0, 6) == %d' % n for n in nums)
        for tag in tags:
            out.append('''pub open spec fn dispatch_%s_%s(o: Seq<u8>, r: Result<AisMessage>) -> bool {
    (%s) ==> crate::messages::%s::%s_%s(o, match r { Ok(AisMessage::%s(m)) => Ok(m), _ => Err(()) })
}
''' % (prefix, tag, cond, mod, prefix, tag, variant))
    return '\n'.join(out)


def dispatch_ensures():
    ens = ['dispatch_C09(unarmored@, r)']
    for (nums, variant, mod, struct, prefix, tags) in c_msgs.type_table():
        for tag in tags:
            ens.append('dispatch_%s_%s(unarmored@, r)' % (prefix, tag))
    return ens


def apply(fc):
    fc.add_prologue(PROLOGUE)
    fc.add_epilogue(dispatch_spec())
    fc.contract('parse', requires=['small(unarmored@.len() as int)'], ensures=dispatch_ensures())
    fc.contract('parse', within='trait AisMessageType', requires=['small(data@.len() as int)'])
    fc.contract('push_unwrap', ensures=['final(list)@ == old(list)@.push(item)'], tags=['C14'])
    fc.contract('unarmor', external_body=True)
