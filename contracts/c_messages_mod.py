from common import PROLOGUE


def apply(fc):
    fc.add_prologue(PROLOGUE)
    fc.contract('parse', external_body=True)
    fc.contract('parse', within='trait AisMessageType', requires=['small(data@.len() as int)'])
    fc.contract('push_unwrap', ensures=['final(list)@ == old(list)@.push(item)'])
    fc.contract('unarmor', external_body=True)
