"""contracts for src/sentence.rs (C02, C05, C06, C07, C08, C17, C19)"""
from common import PROLOGUE

TALKERS = [('AB', 65, 66), ('AD', 65, 68), ('AI', 65, 73), ('AN', 65, 78), ('AR', 65, 82), ('AS', 65, 83), ('AT', 65, 84), ('AX', 65, 88), ('BS', 66, 83), ('SA', 83, 65)]

SPEC = '''
// ---- C07 tables (from the property statement: ten talkers, two report types) ---------------------------
pub open spec fn talker_spec(s: Seq<u8>) -> TalkerId {
    ''' + ' else '.join('if b2(s, %d, %d) { TalkerId::%s }' % (a, b, n) for (n, a, b) in TALKERS) + ''' else { TalkerId::Unknown }
}
pub open spec fn rtype_spec(s: Seq<u8>) -> AisReportType {
    if b3(s, 86, 68, 77) { AisReportType::VDM } else if b3(s, 86, 68, 79) { AisReportType::VDO } else { AisReportType::Unknown }
}

/// everything a sentence reports except the decoded message
pub struct SView {
    pub talker: TalkerId, pub rtype: AisReportType, pub n: int, pub k: int, pub id: Option<u8>, pub channel: Option<char>,
    pub data: Seq<u8>, pub fill: int,
}
impl AisSentence {
    pub open spec fn view(&self) -> SView {
        SView { talker: self.talker_id, rtype: self.report_type, n: self.num_fragments as int, k: self.fragment_number as int, id: self.message_id,
                channel: self.channel, data: self.data@, fill: self.fill_bit_count as int }
    }
}
impl AisParser {
    pub closed spec fn view(&self) -> PState { PState { id: self.message_id, num: self.fragment_number as int, data: self.data@ } }
    /// representation invariant: the buffered payload is bounded by the number of accepted fragments (keeps `len * 6` in range)
    pub closed spec fn inv(&self) -> bool { self.data@.len() <= self.fragment_number * 0x1000_0000 }
}

/// C07: the fields transmitted in the sentence body starting at byte p
pub open spec fn fields_at(o: Seq<u8>, p: int, s: SView) -> bool {
    &&& s.talker == talker_spec(o.subrange(p, p + 2))
    &&& s.rtype == rtype_spec(o.subrange(p + 2, p + 5))
    &&& s.n == dig_val(o, p + 6)
    &&& s.k == dig_val(o, g_p1(o, p) + 1)
    &&& (s.id is Some <==> dig_ok(o, g_p2(o, p) + 1))
    &&& (s.id is Some ==> s.id->Some_0 == dig_val(o, g_p2(o, p) + 1))
    &&& (s.channel is Some <==> g_cend(o, p) > g_p3(o, p) + 1)
    &&& (s.channel is Some ==> s.channel->Some_0 as int == o[g_p3(o, p) + 1] as int)
    &&& s.data =~= o.subrange(g_cend(o, p) + 1, g_pend(o, p))
    &&& s.fill == dig_val(o, g_pend(o, p) + 1)
}
/// C19: the sentence-level type is the 6-bit value of the first payload character
pub open spec fn mtype_at(o: Seq<u8>, p: int, mtype: u8) -> bool { Some(mtype as int) == sixbit(o[g_cend(o, p) + 1]) }
/// signature of known finding D4: the armored byte itself is fed to the bit parser, giving its top six bits
pub open spec fn mtype_kfd4(o: Seq<u8>, p: int, mtype: u8) -> bool { mtype as int == o[g_cend(o, p) + 1] as int / 4 }

pub open spec fn pas_C08(data: &[u8], r: IResult<&[u8], AisSentence>) -> bool {
    forall|orig: Seq<u8>, p: int| #[trigger] suf(orig, data, p) ==> (r is Ok <==> g_ok(orig, p)) && (r is Ok ==> suf(orig, r->Ok_0.0, g_end(orig, p)))
}
pub open spec fn pas_C07(data: &[u8], r: IResult<&[u8], AisSentence>) -> bool {
    forall|orig: Seq<u8>, p: int| #[trigger] suf(orig, data, p) && r is Ok ==> fields_at(orig, p, r->Ok_0.1@) && r->Ok_0.1.message is None
}
pub open spec fn pas_C19(data: &[u8], r: IResult<&[u8], AisSentence>) -> bool {
    forall|orig: Seq<u8>, p: int| #[trigger] suf(orig, data, p) && r is Ok ==> mtype_at(orig, p, r->Ok_0.1.message_type)
}
pub open spec fn pas_KFD4(data: &[u8], r: IResult<&[u8], AisSentence>) -> bool {
    forall|orig: Seq<u8>, p: int| #[trigger] suf(orig, data, p) && r is Ok ==> mtype_kfd4(orig, p, r->Ok_0.1.message_type)
}
pub open spec fn digit_post(data: &[u8], r: IResult<&[u8], u8>) -> bool {
    forall|orig: Seq<u8>, p: int| #[trigger] suf(orig, data, p) ==>
        if dig_ok(orig, p) { r is Ok && r->Ok_0.1 == dig_val(orig, p) && suf(orig, r->Ok_0.0, p + dig_len(orig, p)) } else { is_error(r) }
}

// ---- line level -------------------------------------------------------------------------------------
/// what an accepted line carries: the checksummed byte range, the sentence, the transmitted checksum
pub open spec fn nmea_C08(line: Seq<u8>, r: IResult<&[u8], (&[u8], AisSentence, u8)>) -> bool { r is Ok <==> n_ok(line) }
pub open spec fn nmea_C02(line: Seq<u8>, r: IResult<&[u8], (&[u8], AisSentence, u8)>) -> bool {
    r is Ok ==> r->Ok_0.1.0@ =~= n_raw(line) && r->Ok_0.1.2 as int == n_ck(line)
}
pub open spec fn nmea_C07(line: Seq<u8>, r: IResult<&[u8], (&[u8], AisSentence, u8)>) -> bool {
    r is Ok ==> fields_at(line, n_d(line) + 1, r->Ok_0.1.1@) && r->Ok_0.1.1.message is None
}
pub open spec fn nmea_C19(line: Seq<u8>, r: IResult<&[u8], (&[u8], AisSentence, u8)>) -> bool {
    r is Ok ==> mtype_at(line, n_d(line) + 1, r->Ok_0.1.1.message_type)
}
pub open spec fn nmea_KFD4(line: Seq<u8>, r: IResult<&[u8], (&[u8], AisSentence, u8)>) -> bool {
    r is Ok ==> mtype_kfd4(line, n_d(line) + 1, r->Ok_0.1.1.message_type)
}

// ---- the reassembler as a transition function (C05 / C06 / C17), from the property statements ---------------
pub enum Outcome { Rejected, Incomplete(SView), Complete(SView) }

/// the sentence a well-formed line carries (sentence-level fields, C07)
pub open spec fn sview_of(o: Seq<u8>) -> SView {
    let p = n_d(o) + 1;
    SView {
        talker: talker_spec(o.subrange(p, p + 2)), rtype: rtype_spec(o.subrange(p + 2, p + 5)),
        n: dig_val(o, p + 6), k: dig_val(o, g_p1(o, p) + 1),
        id: if dig_ok(o, g_p2(o, p) + 1) { Some(dig_val(o, g_p2(o, p) + 1) as u8) } else { None },
        channel: if g_cend(o, p) > g_p3(o, p) + 1 { Some(o[g_p3(o, p) + 1] as char) } else { None },
        data: o.subrange(g_cend(o, p) + 1, g_pend(o, p)), fill: dig_val(o, g_pend(o, p) + 1),
    }
}

/// One line against parser state st.
///  * malformed line or checksum mismatch: rejected, state untouched                      (C02, C17)
///  * fragment k < n: k == 1 opens a group (dropping whatever was open); k >= 2 is accepted only if it
///    continues the open group: same sequence id, previous accepted fragment was k-1      (C06)
///  * last fragment (k >= n, n != 1): same condition; delivers the concatenation and closes the group
///  * unfragmented (n == 1): delivered as is, state untouched                                (C17)
pub open spec fn step(st: PState, line: Seq<u8>) -> (PState, Outcome) {
    let s = sview_of(line);
    if !n_ok(line) || xor_spec(n_raw(line)) as int != n_ck(line) { (st, Outcome::Rejected) }
    else if s.k < s.n {
        if s.k == 1 { (PState { id: s.id, num: 1, data: s.data }, Outcome::Incomplete(s)) }
        else if st.id == s.id && s.k == st.num + 1 { (PState { id: st.id, num: s.k, data: st.data + s.data }, Outcome::Incomplete(s)) }
        else { (st, Outcome::Rejected) }
    } else if s.n != 1 {
        if st.id == s.id && s.k == st.num + 1 { (PState { id: st.id, num: 0, data: Seq::empty() }, Outcome::Complete(SView { data: st.data + s.data, ..s })) }
        else { (st, Outcome::Rejected) }
    } else { (st, Outcome::Complete(s)) }
}

/// the decoded message of a delivered sentence: unarmor, then decode (C05: the same two calls, on the same
/// payload, whether it arrived in one sentence or in several)
pub open spec fn decoded(payload: Seq<u8>, fill: int, m: AisMessage) -> bool {
    exists|u: Seq<u8>| #[trigger] crate::messages::unarmor_ok(payload, fill, u) && crate::messages::dispatch_all(u, Ok(m))
}

/// contract of AisParser::parse against `step`
pub open spec fn parse_post(pre: PState, post: PState, line: Seq<u8>, decode: bool, r: Result<AisFragments>) -> bool {
    &&& (!n_ok(line) ==> post == pre && r is Err)
    &&& (n_ok(line) ==> ({
            let (st2, out) = step(pre, line);
            &&& post == st2
            &&& match out {
                    Outcome::Rejected => r is Err,
                    Outcome::Incomplete(v) => r is Ok && r->Ok_0 is Incomplete && r->Ok_0->Incomplete_0@ == v && r->Ok_0->Incomplete_0.message is None,
                    Outcome::Complete(v) => {
                        &&& (!decode ==> r is Ok)
                        &&& (r is Ok ==> r->Ok_0 is Complete && r->Ok_0->Complete_0@ == v
                                && (decode ==> r->Ok_0->Complete_0.message is Some && decoded(v.data, v.fill, r->Ok_0->Complete_0.message->Some_0))
                                && (!decode ==> r->Ok_0->Complete_0.message is None))
                    },
                }
        }))
}
/// C09 at the parser level: a sentence delivered with decoding on carries a message, and its kind follows the first six bits of the
/// sentence's own (reassembled) payload; a payload of any other type is therefore an error of `parse`, never `message: None`
pub open spec fn parse_C09(decode: bool, r: Result<AisFragments>) -> bool {
    decode && r is Ok && r->Ok_0 is Complete ==> ({
        let s = r->Ok_0->Complete_0;
        s.message is Some && exists|u: Seq<u8>| #[trigger] crate::messages::unarmor_ok(s.data@, s.fill_bit_count as int, u) && crate::messages::dispatch_C09(u, Ok(s.message->Some_0))
    })
}
/// the message-level properties at the parser level (the entry point users call): a sentence delivered with decoding on carries the
/// message obtained by unarmoring its payload with its fill count and decoding that (all per-type postconditions of messages::parse),
/// and that payload is the transmitted one: this line's payload, or the concatenation of exactly this group's fragment payloads (`step`)
/// with the last fragment's fill count; an accepted fragment is buffered exactly (nothing dropped, duplicated, shifted or left over
/// from an earlier group).  Rejections and acceptance decisions are NOT part of this clause (C05/C06/C17 own them).
/// One named copy per property so that a refutation is attributed.
pub open spec fn parse_msg(must: bool, pre: PState, post: PState, line: Seq<u8>, decode: bool, r: Result<AisFragments>) -> bool {
    &&& (decode && r is Ok && r->Ok_0 is Complete ==> ({
            let s = r->Ok_0->Complete_0;
            // `must`: a delivered sentence carries a message at all (C14: what cannot be decoded is an error; C09 has its own clause);
            // for the other properties only "IF a message is delivered it is the right one" is theirs
            &&& (must ==> s.message is Some)
            &&& (s.message is Some ==> decoded(s.data@, s.fill_bit_count as int, s.message->Some_0))
            &&& (n_ok(line) ==> match step(pre, line).1 { Outcome::Complete(v) => s@.data == v.data && s@.fill == v.fill, _ => true })
        }))
    &&& (n_ok(line) && r is Ok && r->Ok_0 is Incomplete ==> match step(pre, line).1 { Outcome::Incomplete(v) => post.data == step(pre, line).0.data, _ => true })
}
pub open spec fn parse_msg_C03(pre: PState, post: PState, line: Seq<u8>, decode: bool, r: Result<AisFragments>) -> bool { parse_msg(false, pre, post, line, decode, r) }
pub open spec fn parse_msg_C04(pre: PState, post: PState, line: Seq<u8>, decode: bool, r: Result<AisFragments>) -> bool { parse_msg(false, pre, post, line, decode, r) }
pub open spec fn parse_msg_C10(pre: PState, post: PState, line: Seq<u8>, decode: bool, r: Result<AisFragments>) -> bool { parse_msg(false, pre, post, line, decode, r) }
pub open spec fn parse_msg_C11(pre: PState, post: PState, line: Seq<u8>, decode: bool, r: Result<AisFragments>) -> bool { parse_msg(false, pre, post, line, decode, r) }
pub open spec fn parse_msg_C12(pre: PState, post: PState, line: Seq<u8>, decode: bool, r: Result<AisFragments>) -> bool { parse_msg(false, pre, post, line, decode, r) }
pub open spec fn parse_msg_C13(pre: PState, post: PState, line: Seq<u8>, decode: bool, r: Result<AisFragments>) -> bool { parse_msg(false, pre, post, line, decode, r) }
pub open spec fn parse_msg_C14(pre: PState, post: PState, line: Seq<u8>, decode: bool, r: Result<AisFragments>) -> bool { parse_msg(true, pre, post, line, decode, r) }
pub open spec fn parse_msg_C15(pre: PState, post: PState, line: Seq<u8>, decode: bool, r: Result<AisFragments>) -> bool { parse_msg(false, pre, post, line, decode, r) }
pub open spec fn parse_msg_C16(pre: PState, post: PState, line: Seq<u8>, decode: bool, r: Result<AisFragments>) -> bool { parse_msg(false, pre, post, line, decode, r) }
/// C19 at the parser level: whatever is returned (Complete or Incomplete) reports the type of THIS line's payload
pub open spec fn parse_C19(line: Seq<u8>, r: Result<AisFragments>) -> bool {
    r is Ok ==> mtype_at(line, n_d(line) + 1, match r->Ok_0 { AisFragments::Complete(s) => s.message_type, AisFragments::Incomplete(s) => s.message_type })
}
pub open spec fn parse_KFD4(line: Seq<u8>, r: Result<AisFragments>) -> bool {
    r is Ok ==> mtype_kfd4(line, n_d(line) + 1, match r->Ok_0 { AisFragments::Complete(s) => s.message_type, AisFragments::Incomplete(s) => s.message_type })
}
/// C02: the checksum gate
pub open spec fn parse_C02(line: Seq<u8>, decode: bool, r: Result<AisFragments>) -> bool {
    &&& (n_ok(line) && xor_spec(n_raw(line)) as int != n_ck(line) ==>
            r == Err::<AisFragments, Error>(Error::Checksum { expected: n_ck(line) as u8, found: xor_spec(n_raw(line)) }))
    // (with decoding on, errors of the payload decoders pass through `?` conversions that Verus does not model; that none of
    //  them is a checksum error is the single-construction-site obligation of C02, see DESIGN.md)
    &&& (n_ok(line) && xor_spec(n_raw(line)) as int == n_ck(line) && !decode ==> !(r is Err && r->Err_0 is Checksum))
}

// the derived `Default` is outside the verus! subset: assumed here (fresh parser = no open group), checked in K
pub assume_specification[ <AisParser as core::default::Default>::default ]() -> (r: AisParser)
    ensures r@ == (PState { id: None, num: 0, data: Seq::empty() }), r.inv(),
;


// ---- history-level consequences of `step` (C05 / C06 / C17): proved over the transition function, so they are
// ---- about the code exactly as far as the contract of AisParser::parse is ----------------------------------------
/// a checksum-valid, well-formed line carrying fragment k of n with sequence id `id`
pub open spec fn frag_ok(l: Seq<u8>, n: int, k: int, id: Option<u8>) -> bool {
    n_ok(l) && xor_spec(n_raw(l)) as int == n_ck(l) && sview_of(l).n == n && sview_of(l).k == k && sview_of(l).id == id
}
/// C17: a rejected line and an unfragmented sentence leave the state untouched
pub proof fn lemma_neutral(st: PState, l: Seq<u8>)
    ensures ({ let (st2, out) = step(st, l); (out is Rejected || (out is Complete && sview_of(l).n == 1)) ==> st2 == st }),
{}
/// C05: fragment 1 of n >= 2 opens the group whatever the parser processed before
pub proof fn lemma_frag_first(st: PState, l: Seq<u8>, n: int, id: Option<u8>)
    requires frag_ok(l, n, 1, id), n >= 2,
    ensures step(st, l) == (PState { id: id, num: 1, data: sview_of(l).data }, Outcome::Incomplete(sview_of(l))),
{}
/// C05: the next fragment of the open group is accepted, reports its own fields, and its payload is appended
pub proof fn lemma_frag_next(st: PState, l: Seq<u8>, n: int, j: int, id: Option<u8>)
    requires st.id == id, st.num == j, j >= 1, frag_ok(l, n, j + 1, id), j + 1 < n,
    ensures step(st, l) == (PState { id: id, num: j + 1, data: st.data + sview_of(l).data }, Outcome::Incomplete(sview_of(l))),
{}
/// C05: the last fragment delivers the exact concatenation and closes the group
pub proof fn lemma_frag_last(st: PState, l: Seq<u8>, n: int, id: Option<u8>)
    requires st.id == id, st.num == n - 1, n >= 2, frag_ok(l, n, n, id),
    ensures step(st, l) == (PState { id: id, num: 0, data: Seq::empty() }, Outcome::Complete(SView { data: st.data + sview_of(l).data, ..sview_of(l) })),
{}
/// C06: a fragment k >= 2 that is not rejected directly continues the open group (same id, previous accepted fragment k-1)
pub proof fn lemma_accept_continues(st: PState, l: Seq<u8>)
    requires sview_of(l).k >= 2, sview_of(l).n != 1, !(step(st, l).1 is Rejected),
    ensures st.id == sview_of(l).id, st.num == sview_of(l).k - 1, st.num >= 1,
{}
/// C06: after a delivery no group is open, and with no open group every fragment k >= 2 is rejected
pub proof fn lemma_closed(st: PState, l: Seq<u8>)
    ensures
        (step(st, l).1 is Complete && sview_of(l).n != 1) ==> step(st, l).0.num == 0,
        (st.num == 0 && sview_of(l).k >= 2 && sview_of(l).n != 1) ==> step(st, l).1 is Rejected && step(st, l).0 == st,
{}

/// state after the first j lines of a history / outcome of line j
pub open spec fn run_n(st: PState, h: Seq<Seq<u8>>, j: int) -> PState
    decreases j
{
    if j <= 0 { st } else { step(run_n(st, h, j - 1), h[j - 1]).0 }
}
pub open spec fn out_n(st: PState, h: Seq<Seq<u8>>, j: int) -> Outcome { step(run_n(st, h, j), h[j]).1 }
pub open spec fn concat_data(h: Seq<Seq<u8>>, j: int) -> Seq<u8>
    decreases j
{
    if j <= 0 { Seq::empty() } else { concat_data(h, j - 1) + sview_of(h[j - 1]).data }
}
/// C05 by induction: n in-order fragments of one group, from ANY prior state: every fragment but the last is Incomplete with its
/// own fields and the state tracks the concatenation so far
pub proof fn lemma_reassembly_prefix(st: PState, h: Seq<Seq<u8>>, n: int, id: Option<u8>, j: int)
    requires n >= 2, h.len() == n, forall|i: int| 0 <= i < n ==> frag_ok(#[trigger] h[i], n, i + 1, id), 1 <= j <= n - 1,
    ensures run_n(st, h, j) == (PState { id: id, num: j, data: concat_data(h, j) }), out_n(st, h, j - 1) == Outcome::Incomplete(sview_of(h[j - 1])),
    decreases j
{
    if j == 1 {
        lemma_frag_first(st, h[0], n, id);
        assert(concat_data(h, 1) =~= sview_of(h[0]).data) by { assert(concat_data(h, 0) =~= Seq::<u8>::empty()); }
    } else {
        lemma_reassembly_prefix(st, h, n, id, j - 1);
        lemma_frag_next(run_n(st, h, j - 1), h[j - 1], n, j - 1, id);
    }
}
/// ... and the last one is Complete with the exact concatenation of all fragment payloads
pub proof fn lemma_reassembly(st: PState, h: Seq<Seq<u8>>, n: int, id: Option<u8>)
    requires n >= 2, h.len() == n, forall|i: int| 0 <= i < n ==> frag_ok(#[trigger] h[i], n, i + 1, id),
    ensures out_n(st, h, n - 1) == Outcome::Complete(SView { data: concat_data(h, n), ..sview_of(h[n - 1]) }), run_n(st, h, n).num == 0,
{
    lemma_reassembly_prefix(st, h, n, id, n - 1);
    lemma_frag_last(run_n(st, h, n - 1), h[n - 1], n, id);
}
/// C17 (erase): a line that leaves the state untouched does not change what any later line produces
pub proof fn lemma_erase(st: PState, l: Seq<u8>, rest: Seq<Seq<u8>>, j: int)
    requires step(st, l).0 == st, 0 <= j < rest.len(),
    ensures out_n(step(st, l).0, rest, j) == out_n(st, rest, j),
{}

impl vstd::std_specs::convert::FromSpecImpl<AisFragments> for Option<AisSentence> {
    open spec fn obeys_from_spec() -> bool { false }
    open spec fn from_spec(v: AisFragments) -> Option<AisSentence> { None }
}
impl vstd::std_specs::convert::FromSpecImpl<AisFragments> for Result<AisSentence> {
    open spec fn obeys_from_spec() -> bool { false }
    open spec fn from_spec(v: AisFragments) -> Result<AisSentence> { arbitrary() }
}
'''


def apply(fc):
    fc.add_prologue(PROLOGUE.replace('broadcast use {crate::vspec::f32ax::f32_div_total, crate::vspec::f32ax::f32_mul_total};',
        'broadcast use {crate::vspec::sax::tag_comma, crate::vspec::sax::tag_bs, crate::vspec::sax::tag_bang, crate::vspec::sax::tag_dollar, crate::vspec::sax::tag_star, '
        'crate::vspec::sax::find_range, crate::vspec::sax::find_shift, crate::vspec::sax::dig_len_range, crate::vspec::sax::dig_val_range, crate::vspec::sax::hex_range, '
        'crate::vspec::sax::fld_first6};'))
    fc.add_epilogue(SPEC)
    # `match typ { b"VDM" => .. }` (byte-string slice patterns) crashes Verus (ill-typed AIR): assumed here, K complete for lengths 0..=4
    fc.contract('from', within='for AisReportType', ensures=['r == rtype_spec(typ@)'], external_body=True, tags=['C07'])
    fc.contract('from', within='for TalkerId', ensures=['r == talker_spec(talker_id@)'], external_body=True, tags=['C07'])
    fc.contract('from', within='impl From<AisFragments> for Option<AisSentence>',
                ensures=['frag is Complete ==> r == Some(frag->Complete_0)', 'frag is Incomplete ==> r is None'], tags=['C05'])
    fc.contract('from', within='impl From<AisFragments> for Result<AisSentence>',
                ensures=['frag is Complete ==> r == Ok::<AisSentence, Error>(frag->Complete_0)', 'frag is Incomplete ==> r is Err'], tags=['C05'])
    fc.contract('has_more', within='impl AisSentence', ensures=['r == (self.fragment_number < self.num_fragments)'], tags=['C05', 'C06'])
    fc.contract('is_fragment', within='impl AisSentence', ensures=['r == (self.num_fragments != 1)'], tags=['C05', 'C06'])
    # Iterator::fold with a closure taking `&item` is outside Verus's subset: assumed here, K bounded (<= 256 bytes)
    fc.contract('check_checksum', within='impl AisParser',
                ensures=['xor_spec(sentence@) == expected_checksum ==> r == Ok::<u8, Error>(expected_checksum)',
                         'xor_spec(sentence@) != expected_checksum ==> r == Err::<u8, Error>(Error::Checksum { expected: expected_checksum, found: xor_spec(sentence@) })'],
                external_body=True, tags=['C02'])
    # str::from_utf8 / FromStr (no vstd specification): assumed here, K bounded (<= 6 digits)
    fc.contract('parse_numeric_string', external_body=True, tags=['C07', 'C08'])
    fc.contract('parse_u8_digit', requires=[], ensures=['digit_post(data, r)'], external_body=True, tags=['C07', 'C08'])
    fc.contract('parse_ais_sentence', requires=['line_small(data@.len() as int)'],
                ensures=['pas_C08(data, r)', 'pas_C07(data, r)', 'pas_C19(data, r)', 'pas_KFD4(data, r)'],
                attrs=['#[verifier::spinoff_prover]', '#[verifier::rlimit(400)]'])
    fc.body_prefix('parse_ais_sentence', '    proof { suf_unfold(data); }')
    # the comparison operator and the bound are captured from the code (shape only): that the bound is `< 6` is said by pas_C08 alone
    # (C08-w08-m2, `*val <= 6`, lost this anchor while it spelled `<` out)
    fc.replace_in_re('parse_ais_sentence', r'\|(\w+)\| \*\1 (<=|<|>=|>|==|!=) (\w+)', r'|\1: &u8| -> (b: bool) ensures b == (*\1 \2 \3), { *\1 \2 \3 }')
    fc.contract('parse_nmea_sentence', requires=['line_small(data@.len() as int)'],
                ensures=['nmea_C08(data@, r)', 'nmea_C02(data@, r)', 'nmea_C07(data@, r)', 'nmea_C19(data@, r)', 'nmea_KFD4(data@, r)'])
    fc.body_prefix('parse_nmea_sentence', '    proof { suf_self(data); }')
    # the hint names the cursor that is passed to `terminated(..)(cursor)`, read from the call itself (the let may bind other names)
    fc.insert_re('parse_nmea_sentence', r'let \(\w+, \w+\) = terminated\((?:[^()]|\([^()]*\))*\)\((\w+)\)', r'proof { suf_unfold(\1); }\n    ')
    if not fc.replace_in_re('parse_nmea_sentence', r'\|(\w+)\| \1 (<=|<|>=|>|==|!=) &(\w+)', r'|\1: &u32| -> (b: bool) ensures b == (*\1 \2 \3), { \1 \2 &\3 }'):
        fc.lost.pop()
        fc.replace_in_re('parse_nmea_sentence', r'\|(\w+)\| \*\1 (<=|<|>=|>|==|!=) (\w+)', r'|\1: &u32| -> (b: bool) ensures b == (*\1 \2 \3), { *\1 \2 \3 }')
    for nm, tg in [('lemma_neutral', ['C17', 'C05']), ('lemma_frag_first', ['C05']), ('lemma_frag_next', ['C05']), ('lemma_frag_last', ['C05']),
                   ('lemma_accept_continues', ['C06']), ('lemma_closed', ['C06']), ('lemma_reassembly_prefix', ['C05']), ('lemma_reassembly', ['C05']),
                   ('lemma_erase', ['C17'])]:
        fc.lemma(nm, tg)
    fc.contract('new', within='impl AisParser', ensures=['r@ == (PState { id: None, num: 0, data: Seq::empty() })', 'r.inv()'], tags=['C05', 'C17'])
    fc.contract('parse', within='impl AisParser', requires=['line_small(line@.len() as int)', 'old(self).inv()'],
                ensures=['parse_post(old(self)@, final(self)@, line@, decode, r)', 'parse_C02(line@, decode, r)', 'parse_C19(line@, r)', 'parse_KFD4(line@, r)', 'parse_C09(decode, r)', 'parse_msg_C03(old(self)@, final(self)@, line@, decode, r)', 'parse_msg_C04(old(self)@, final(self)@, line@, decode, r)', 'parse_msg_C10(old(self)@, final(self)@, line@, decode, r)', 'parse_msg_C11(old(self)@, final(self)@, line@, decode, r)', 'parse_msg_C12(old(self)@, final(self)@, line@, decode, r)', 'parse_msg_C13(old(self)@, final(self)@, line@, decode, r)', 'parse_msg_C14(old(self)@, final(self)@, line@, decode, r)', 'parse_msg_C15(old(self)@, final(self)@, line@, decode, r)', 'parse_msg_C16(old(self)@, final(self)@, line@, decode, r)', 'final(self).inv()'], tags=['C02', 'C05', 'C06', 'C07', 'C08', 'C17'])
    fc.contract('verify_and_extend_data', within='impl AisParser',
                ensures=['(old(self).message_id == ais_sentence.message_id && ais_sentence.fragment_number as int == old(self).fragment_number + 1) <==> r is Ok',
                         'r is Err ==> final(self)@ == old(self)@ && !(r->Err_0 is Checksum)',
                         'r is Ok ==> final(self)@.id == old(self).message_id && final(self)@.num == ais_sentence.fragment_number as int && final(self)@.data =~= old(self).data@ + ais_sentence.data@'],
                tags=['C05', 'C06', 'C17'])
