from common import PROLOGUE


def apply(fc):
    fc.add_prologue(PROLOGUE)
    fc.contract('check_checksum', within='impl AisParser', external_body=True)
    fc.contract('parse_numeric_string', external_body=True)
    fc.contract('parse_u8_digit', external_body=True)
    fc.contract('from', within='for AisReportType', external_body=True)
    fc.contract('from', within='for TalkerId', external_body=True)
