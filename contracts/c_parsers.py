"""contracts for src/messages/parsers.rs"""
from common import leaf_post, PROLOGUE, CUR

SPEC = '''
// ---- contracts of the common leaf parsers ------------------------------------------------
''' + leaf_post('parse_year_post', 'Option<u16>', 14, 'x == opt_ne_u16(v, 0)') \
    + leaf_post('parse_month_post', 'Option<u8>', 4, 'x == opt_ne_u8(v, 0)') \
    + leaf_post('parse_day_post', 'Option<u8>', 5, 'x == opt_ne_u8(v, 0)') \
    + leaf_post('parse_hour_post', 'u8', 5, 'x == v') \
    + leaf_post('parse_minsec_post', 'Option<u8>', 6, 'x == opt_ne_u8(v, 60)') \
    + leaf_post('message_type_bits_post', 'u8', 6, 'x == v && x < 64', extra='\n    // instance for a fresh cursor (no `at` term exists yet to trigger the quantifier)\n    &&& (data.1 == 0 ==> if 8 * data.0@.len() >= 6 { r is Ok && r->Ok_0.1 == fld(data.0@, 0, 6) && r->Ok_0.1 < 64 } else { r is Err })') + '''
/// the trimmed 6-bit ASCII decoding of n characters starting at bit p (meaning given in K, see C13)
pub uninterp spec fn text6(orig: Seq<u8>, p: int, n: int) -> Seq<char>;

''' + leaf_post('text_post', 'AsciiString', '6 * (size / 6)', 'x@ == text6(orig, p, size / 6)', params='size: int, ', cur='input') \
    + leaf_post('signed_post', 'i32', 'len', 'x as int == sext(v, len) && -nom::bits::complete::pow2(len - 1) <= x < nom::bits::complete::pow2(len - 1)', params='len: int, ', cur='input') + '''
pub open spec fn message_type_post(data: &[u8], r: nom::IResult<&[u8], u8>) -> bool {
    &&& (r is Ok <==> data@.len() >= 1)
    &&& (r is Err ==> is_error(r))
    &&& (r is Ok ==> r->Ok_0.1 == fld(data@, 0, 6) && r->Ok_0.1 < 64)
}
'''


def apply(fc):
    fc.add_prologue(PROLOGUE)
    fc.add_epilogue(SPEC)
    for (fn, var, ty, oty, sent) in [('parse_year', 'year', 'u16', 'Option<u16>', 0), ('parse_month', 'month', 'u8', 'Option<u8>', 0),
                                     ('parse_day', 'day', 'u8', 'Option<u8>', 0), ('parse_minsec', 'minsec', 'u8', 'Option<u8>', 60)]:
        fc.contract(fn, requires=['cur_ok(data)'], ensures=['%s_post(data, r)' % fn], tags=['C11', 'C04'])
        fn_opt = 'opt_ne_u16' if ty == 'u16' else 'opt_ne_u8'
        fc.wrap_closure_expr_re(fn, r'\|(\w+)\|',
                                r'|\1: %s| -> (o: %s) ensures o == %s(\1 as int, %d), {' % (ty, oty, fn_opt, sent))
    fc.contract('parse_hour', requires=['cur_ok(data)'], ensures=['parse_hour_post(data, r)'], tags=['C04'])
    fc.contract('remaining_bits', requires=['cur_ok(data)'],
                ensures=['forall|orig: Seq<u8>, p: int| #[trigger] at(orig, data, p) ==> r == 8 * orig.len() - p',
                         'r == 8 * data.0@.len() - data.1'], tags=['C14'])
    fc.body_prefix('remaining_bits', 'proof { at_unfold(data); }')
    # outside Verus's subset (Result::map with closures, str methods): assumed here, discharged in K (bounded, see C13)
    fc.contract('parse_6bit_ascii', requires=['cur_ok(input)'], ensures=['text_post(input, size as int, r)'], external_body=True, tags=['C13'])
    fc.contract('message_type', requires=['small(data@.len() as int)'], ensures=['message_type_post(data, r)'], tags=['C09', 'C19'])
    # helper: may disappear in a refactoring; message_type's own contract is what carries the property
    if fc.contract('message_type_bits', requires=['cur_ok(data)'], ensures=['message_type_bits_post(data, r)'], tags=['C09', 'C19'], optional=True):
        fc.body_prefix('message_type_bits', 'proof { at_self(data); }')
    # format! in the error arm; only called from parse_6bit_ascii: K, complete over all 256 inputs
    fc.contract('sixbit_to_ascii', ensures=['data <= 31 ==> r == Ok::<u8, crate::errors::Error>((data + 64) as u8)', '32 <= data <= 63 ==> r == Ok::<u8, crate::errors::Error>(data)', 'data >= 64 ==> r is Err'], tags=['C13'])
    fc.contract('u8_to_bool', requires=['data <= 1'], ensures=['r == (data == 1)'], tags=['C04'])
    # leading_zeros / shift tricks: K, complete over all widths 1..=31, offsets 0..7, contents
    fc.contract('signed_i32', requires=['cur_ok(input)', '1 <= len <= 31'], ensures=['signed_post(input, len as int, r)'], external_body=True, tags=['C10'])
