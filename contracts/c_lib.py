"""lib.rs: the no_std replacements of std::error::Error (a trait with a `dyn Error` default method) are outside Verus's subset and
carry no behaviour of interest: marked external"""


def apply(fc):
    fc.attr_before_item('pub trait Error: fmt::Debug + fmt::Display', '#[verifier::external]', occ=0)
    fc.attr_before_item('pub trait Error: fmt::Debug + fmt::Display', '#[verifier::external]', occ=1)
