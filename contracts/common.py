"""helpers shared by the per-file contract modules"""
import re

CUR = '(&[u8], usize)'

PROLOGUE = '''#[allow(unused_imports)] use crate::vspec::*;
#[allow(unused_imports)] use nom::{at, fld, suf, find, tagbyte, is_error, hex_len, hex_val, dig_len};
#[allow(unused_imports)] use vstd::std_specs::ops::*;
#[allow(unused_imports)] use vstd::float::*;
broadcast use {crate::vspec::f32ax::f32_div_total, crate::vspec::f32ax::f32_mul_total};
'''


MSG_PROLOGUE = PROLOGUE + '''#[allow(unused_imports)] use crate::messages::radio_status::*;
#[allow(unused_imports)] use crate::messages::parsers::*;
#[allow(unused_imports)] use crate::messages::navigation::*;
#[allow(unused_imports)] use crate::messages::types::*;
#[allow(unused_imports)] use crate::messages::position_report::navstatus_spec;
'''


def leaf_post(name, ty, w, value, params='', cur='data', extra=''):
    """named postcondition of a bit-cursor leaf parser that consumes exactly w bits (or fails recoverably).
    `value` is a boolean expression over x (= parsed value), v (= fld(orig, p, w)), orig and p.
    One quantifier per contract (fewer instantiations than separate position / value clauses)."""
    return '''pub open spec fn %(name)s(%(cur)s: (&[u8], usize), %(params)sr: nom::IResult<(&[u8], usize), %(ty)s>) -> bool {
    &&& (r is Err ==> r->Err_0 is Error)
    &&& (r is Ok ==> cur_ok(r->Ok_0.0) && r->Ok_0.0.0@.len() <= %(cur)s.0@.len())
    &&& forall|orig: Seq<u8>, p: int| #[trigger] at(orig, %(cur)s, p) ==>
        if 8 * orig.len() - p >= %(w)s { r is Ok && at(orig, r->Ok_0.0, p + %(w)s) && ({ let x = r->Ok_0.1; let v = fld(orig, p, %(w)s); %(value)s }) } else { r is Err }%(extra)s
}
''' % dict(name=name, ty=ty, w=w, value=value, params=params, cur=cur, extra=extra)


BITS_RE = r"bits\(move \|(\w+)(?:: \(&'a \[u8\], usize\))?\| -> IResult<_, _> \{"
SIGNED_RE = r"\|(\w+)\| signed_i32\(\1, (\d+)\)"


def bits_closure_template(struct, post_clauses, lifetime=None, requires=('data.1 == 0', 'small(data.0@.len() as int)')):
    """typed header for the closure handed to `bits(..)` (regex template: \\1 is the closure's parameter name, whatever it is
    called); one ensures clause per line so that a failed clause is identified by its line in the verifier's report"""
    lt = "&'a [u8]" if lifetime else '&[u8]'
    rn = lambda x: re.sub(r'\bdata\b', r'\\1', x)
    req = ''.join('\n            %s,' % rn(x) for x in requires)
    ens = ''.join('\n            %s,' % rn(x) for x in post_clauses)
    return 'bits(move |\\1: (%s, usize)| -> (r: IResult<(%s, usize), %s>)\n        requires%s\n        ensures%s\n    {\n        proof { at_self(\\1); }' % (lt, lt, struct, req, ens)


def apply_bits_closure(fc, fn, struct, post_clauses, lifetime=None):
    fc.replace_in_re(fn, BITS_RE, bits_closure_template(struct, post_clauses, lifetime))


def apply_signed_closures(fc, fn, widths):
    if widths:
        got = fc.replace_in_re(fn, SIGNED_RE, r'|\1: (&[u8], usize)| -> (r: IResult<(&[u8], usize), i32>) requires cur_ok(\1), ensures signed_post(\1, \2, r), { signed_i32(\1, \2) }', occ='all')
        found = sorted(int(g[1]) for g in got) if got else []
        # the widths themselves are not part of the anchor: a changed width is for the layout postcondition to refute


def signed_closure(w):
    return ('|data: (&[u8], usize)| -> (r: IResult<(&[u8], usize), i32>) requires cur_ok(data), ensures signed_post(data, %d, r), { signed_i32(data, %d) }' % (w, w))
