"""helpers shared by the per-file contract modules"""

CUR = '(&[u8], usize)'

PROLOGUE = '''#[allow(unused_imports)] use crate::vspec::*;
#[allow(unused_imports)] use nom::{at, fld, suf, find, tagbyte, is_error};
#[allow(unused_imports)] use vstd::std_specs::ops::*;
#[allow(unused_imports)] use vstd::float::*;
broadcast use crate::vspec::f32ax::f32_div_total, crate::vspec::f32ax::f32_mul_total;
'''


MSG_PROLOGUE = PROLOGUE + '''#[allow(unused_imports)] use crate::messages::radio_status::*;
#[allow(unused_imports)] use crate::messages::parsers::*;
#[allow(unused_imports)] use crate::messages::navigation::*;
#[allow(unused_imports)] use crate::messages::types::*;
#[allow(unused_imports)] use crate::messages::position_report::navstatus_spec;
'''


def leaf_post(name, ty, w, value, extra='', base=False):
    """named postcondition of a bit-cursor leaf parser that consumes exactly w bits.
    `value` is a boolean expression over x (= parsed value) and v (= fld(orig, p, w)).
    base=True adds the non-quantified instance orig := data.0@, p := data.1 (needed when the parser is the
    first thing run on a fresh cursor, where no `at` term exists yet to trigger the quantifier)."""
    b = ''
    if base:
        b = '''
    &&& (if 8 * data.0@.len() - data.1 >= %(w)s { r is Ok && at(data.0@, r->Ok_0.0, data.1 + %(w)s) && ({ let x = r->Ok_0.1; let v = fld(data.0@, data.1 as int, %(w)s); %(value)s }) } else { r is Err })''' % dict(w=w, value=value)
    return '''pub open spec fn %(name)s(data: (&[u8], usize), r: nom::IResult<(&[u8], usize), %(ty)s>) -> bool {
    &&& leaf_ok(data, %(w)s, r)
    &&& forall|orig: Seq<u8>, p: int| #[trigger] at(orig, data, p) && r is Ok ==> ({ let x = r->Ok_0.1; let v = fld(orig, p, %(w)s); %(value)s })%(base)s%(extra)s
}
''' % dict(name=name, ty=ty, w=w, value=value, extra=extra, base=b)


def bits_closure_head(struct, post_clauses, lifetime=None, requires=('data.1 == 0', 'small(data.0@.len() as int)')):
    """typed header for the closure handed to `bits(..)`; one ensures clause per line so that a failed clause is
    identified by its line in the verifier's report"""
    lt = "&'a [u8]" if lifetime else '&[u8]'
    req = ''.join('\n            %s,' % x for x in requires)
    ens = ''.join('\n            %s,' % x for x in post_clauses)
    return 'bits(move |data: (%s, usize)| -> (r: IResult<(%s, usize), %s>)\n        requires%s\n        ensures%s\n    {\n        proof { at_self(data); }' % (lt, lt, struct, req, ens)


def signed_closure(w):
    return ('|data: (&[u8], usize)| -> (r: IResult<(&[u8], usize), i32>) requires cur_ok(data), ensures signed_post(data, %d, r), { signed_i32(data, %d) }' % (w, w))
