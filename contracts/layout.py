"""Generator: layout table (ITU-R M.1371-5 bit positions) -> per-property postcondition spec fns.

A layout is a list of fields  (name, kind, offset, width, tag)  and a few extra clauses.
kinds:
  raw                m.f == fld(o, off, w)
  bool               m.f == (fld(o, off, 1) == 1)
  enum:FN:TY         m.f == FN(fld(o, off, w) as TY)
  rel:FN:TY          FN(fld(o, off, w) as TY, m.f)
  srel:FN            FN(sext(fld(o, off, w), w) as i32, m.f)          (two's-complement field)
  text:N             m.f@ == text6(o, off, N)                          (N characters of 6-bit ASCII)
  expr:E             E   (free clause over m and o)
"""


# fields that carry a scaled value (C10) AND a 'not available' code (C11): the link of the field to its leaf relation is an
# obligation of both properties (a wrong width or offset at the per-type level breaks the sentinel just as it breaks the value)
SENTINEL_KINDS = ('srel:lon_rel', 'srel:lat_rel', 'srel:lon10_rel', 'srel:lat10_rel', 'rel:sog_rel', 'rel:cog_rel', 'rel:sog_sar_rel', 'rel:sog27_rel', 'rel:cog27_rel')


def expand(fields):
    out = []
    for f in fields:
        out.append(f)
        if f[4] == 'C10' and any(f[1] == k or f[1].startswith(k + ':') for k in SENTINEL_KINDS):
            out.append(tuple(f[:4]) + ('C11',))
        if f[4] == 'C15' and f[1] == 'raw':
            # the integer fields of the type 17 correction header (station id, Z count, sequence number, N, health) are "delivered intact"
            # (C15) and are integers / sequence numbers in the sense of C04
            out.append(tuple(f[:4]) + ('C04',))
        if f[4] == 'C11':
            # C04 lists time stamps and slot parameters among "every integer ... equals what was transmitted": the position and width
            # of a field with a 'not available' code are obligations of C04 as well
            out.append(tuple(f[:4]) + ('C04',))
    seen, uniq = set(), []
    for f in out:
        if tuple(f) not in seen:
            seen.add(tuple(f))
            uniq.append(f)
    return uniq


def clause(f):
    name, kind, off, w = f[0], f[1], f[2], f[3]
    fl = 'fld(o, %s, %s)' % (off, w)
    if kind == 'raw':
        return 'm.%s == %s' % (name, fl)
    if kind == 'bool':
        return 'm.%s == (fld(o, %s, 1) == 1)' % (name, off)
    if kind.startswith('enum:'):
        _, fn, ty = kind.split(':')
        return 'm.%s == %s(%s as %s)' % (name, fn, fl, ty)
    if kind.startswith('rel:'):
        _, fn, ty = kind.split(':')
        return '%s(%s as %s, m.%s)' % (fn, fl, ty, name)
    if kind.startswith('srel:'):
        fn = kind.split(':')[1]
        return '%s(sext(%s, %s) as i32, m.%s)' % (fn, fl, w, name)
    if kind.startswith('text:'):
        n = kind.split(':')[1]
        return 'm.%s@ == text6(o, %s, %s)' % (name, off, n)
    if kind.startswith('expr:'):
        return kind[5:]
    raise ValueError(kind)


def gen_posts(prefix, struct, fields, extra=None, guard=None):
    """returns (spec_text, {tag: spec_fn_name}).  `extra` = {tag: [clauses over o, n, r]} for clauses that do not
    live under `r is Ok`; `guard` = optional condition on o under which the field clauses are claimed."""
    fields = expand(fields)
    tags = []
    for f in fields:
        if f[4] not in tags:
            tags.append(f[4])
    for t in (extra or {}):
        if t not in tags:
            tags.append(t)
    out = []
    names = {}
    for t in tags:
        fn = '%s_%s' % (prefix, t)
        names[t] = fn
        cl = [clause(f) for f in fields if f[4] == t]
        body = []
        for e in (extra or {}).get(t, []):
            body.append('    &&& (%s)' % e)
        if cl:
            g = ('(%s) && ' % guard) if guard else ''
            body.append('    &&& (%sr is Ok ==> { let m = r->Ok_0;\n%s\n    })' % (g, '\n'.join('        &&& %s' % c for c in cl)))
        out.append('pub open spec fn %s(o: Seq<u8>, r: core::result::Result<%s, ()>) -> bool {\n    let n = 8 * o.len();\n%s\n}\n' % (fn, struct, '\n'.join(body)))
    return '\n'.join(out), names
