"""relpath -> contract module"""
import importlib
from common import PROLOGUE

MODULES = {
    'messages/parsers.rs': 'c_parsers',
    'messages/navigation.rs': 'c_navigation',
    'messages/types.rs': 'c_types',
    'messages/radio_status.rs': 'c_radio_status',
    'messages/position_report.rs': 'c_position_report',
    'errors.rs': 'c_errors',
    'lib.rs': 'c_lib',
    'messages/mod.rs': 'c_messages_mod',
    'sentence.rs': 'c_sentence',
}


def apply(relpath, fc, cfg=None):
    import c_msgs
    if relpath in c_msgs.FILES:
        c_msgs.FILES[relpath](fc)
        return
    mod = MODULES.get(relpath)
    if mod is None:
        return
    try:
        m = importlib.import_module(mod)
    except ModuleNotFoundError:
        return
    m.apply(fc) if cfg is None or 'cfg' not in m.apply.__code__.co_varnames else m.apply(fc, cfg)
