"""contracts for src/messages/position_report.rs (types 1-3)"""
from common import MSG_PROLOGUE, apply_bits_closure, apply_signed_closures
from layout import gen_posts

# ITU-R M.1371-5 Table 45 (messages 1, 2, 3), 168 bits
FIELDS = [
    ('message_type', 'raw', 0, 6, 'C04'),
    ('repeat_indicator', 'raw', 6, 2, 'C04'),
    ('mmsi', 'raw', 8, 30, 'C04'),
    ('navigation_status', 'enum:navstatus_spec:u8', 38, 4, 'C12'),
    ('rate_of_turn', 'enum:rot_spec:u8', 42, 8, 'C11'),
    ('speed_over_ground', 'rel:sog_rel:u16', 50, 10, 'C10'),
    ('position_accuracy', 'enum:accuracy_spec:u8', 60, 1, 'C12'),
    ('longitude', 'srel:lon_rel', 61, 28, 'C10'),
    ('latitude', 'srel:lat_rel', 89, 27, 'C10'),
    ('course_over_ground', 'rel:cog_rel:u16', 116, 12, 'C10'),
    ('true_heading', 'enum:heading_spec:u16', 128, 9, 'C11'),
    ('timestamp', 'raw', 137, 6, 'C04'),
    ('maneuver_indicator', 'enum:maneuver_spec:u8', 143, 2, 'C12'),
    ('raim', 'bool', 148, 1, 'C04'),
    ('radio_status', 'expr:(fld(o, 0, 6) == 1 || fld(o, 0, 6) == 2 ==> sotdma_at(o, 149, m.radio_status)) && (fld(o, 0, 6) == 3 ==> itdma_at(o, 149, m.radio_status))', 149, 19, 'C16'),
]
EXTRA = {'C14': ['1 <= fld(o, 0, 6) <= 3 ==> (r is Ok <==> n >= 168)']}

NAVSTATUS = ['UnderWayUsingEngine', 'AtAnchor', 'NotUnderCommand', 'RestrictedManouverability', 'ConstrainedByDraught', 'Moored', 'Aground',
             'EngagedInFishing', 'UnderWaySailing', 'ReservedForHSC', 'ReservedForWIG', 'Reserved01', 'Reserved02', 'Reserved03', 'AisSartIsActive']

SPEC_NAV = '''
/// navigational status (M.1371 Table 45): 0..14 named, 15 'not defined' = absent
pub open spec fn navstatus_spec(d: u8) -> Option<NavigationStatus> {
    ''' + ' else '.join('if d == %d { Some(NavigationStatus::%s) }' % (i, n) for i, n in enumerate(NAVSTATUS)) + ''' else if d == 15 { None } else { Some(NavigationStatus::Unknown(d)) }
}
pub proof fn navstatus_injective(a: u8, b: u8) requires navstatus_spec(a) == navstatus_spec(b), navstatus_spec(a) is Some ensures a == b {}
'''


def apply(fc):
    posts, names = gen_posts('t1', 'PositionReport', FIELDS, EXTRA)
    fc.add_prologue(MSG_PROLOGUE.replace('#[allow(unused_imports)] use crate::messages::position_report::navstatus_spec;\n', ''))
    fc.add_epilogue(SPEC_NAV + posts)
    ens_inner = ['%s(data.0@, strip(r))' % names[t] for t in names]
    ens_outer = ['%s(data@, strip(r))' % names[t] for t in names]
    fc.contract('parse_base', requires=['small(data@.len() as int)'], ensures=ens_outer)
    apply_bits_closure(fc, 'parse_base', 'PositionReport', ens_inner)
    apply_signed_closures(fc, 'parse_base', (28, 27))
    fc.contract('parse', within='for PositionReport', ensures=['%s(data@, strip1(r))' % names[t] for t in names])
    fc.contract('parse', within='impl NavigationStatus', ensures=['r == navstatus_spec(data)'], tags=['C12'])
    fc.lemma('navstatus_injective', ['C12'])
