"""contracts for the per-type message files — layouts from ITU-R M.1371-5 Annex 8 (bit offsets from 0, MSB first)"""
from common import MSG_PROLOGUE, apply_bits_closure, apply_signed_closures, leaf_post
from layout import gen_posts
import layout

HDR = [('message_type', 'raw', 0, 6, 'C04'), ('repeat_indicator', 'raw', 6, 2, 'C04'), ('mmsi', 'raw', 8, 30, 'C04')]
BITS_HEAD = 'bits(move |data| -> IResult<_, _> {'
BITS_HEAD_A = "bits(move |data: (&'a [u8], usize)| -> IResult<_, _> {"
F32 = 'proof { crate::vspec::f32ax::f32_det(); }'


def std_message(fc, prefix, struct, fields, extra, fn='parse_base', lifetime=False, signed=(28, 27), guard=None, more_spec='', trait_for=None):
    posts, names = gen_posts(prefix, struct, fields, extra, guard)
    fc.add_prologue(MSG_PROLOGUE)
    fc.add_epilogue(more_spec + posts)
    ens_inner = ['%s(data.0@, strip(r))' % names[t] for t in names]
    ens_outer = ['%s(data@, strip(r))' % names[t] for t in names]
    fc.contract(fn, requires=['small(data@.len() as int)'], ensures=ens_outer)
    apply_bits_closure(fc, fn, struct, ens_inner, lifetime)
    apply_signed_closures(fc, fn, signed)
    fc.contract('parse', within='for %s' % (trait_for or struct), ensures=['%s(data@, strip1(r))' % names[t] for t in names])
    return names


# ---------------------------------------------------------------------------------------------- 4 / 11
def base_station_fields(t):
    return HDR + [
        ('year', 'expr:m.year == opt_ne_u16(fld(o, 38, 14), 0)', 38, 14, 'C11'),
        ('month', 'expr:m.month == opt_ne_u8(fld(o, 52, 4), 0)', 52, 4, 'C11'),
        ('day', 'expr:m.day == opt_ne_u8(fld(o, 56, 5), 0)', 56, 5, 'C11'),
        ('hour', 'raw', 61, 5, 'C04'),
        ('minute', 'expr:m.minute == opt_ne_u8(fld(o, 66, 6), 60)', 66, 6, 'C11'),
        ('second', 'expr:m.second == opt_ne_u8(fld(o, 72, 6), 60)', 72, 6, 'C11'),
        ('fix_quality', 'enum:accuracy_spec:u8', 78, 1, 'C12'),
        ('longitude', 'srel:lon_rel', 79, 28, 'C10'),
        ('latitude', 'srel:lat_rel', 107, 27, 'C10'),
        ('epfd_type', 'enum:epfd_spec:u8', 134, 4, 'C12'),
        ('raim', 'bool', 148, 1, 'C04'),
        ('radio_status', 'expr:fld(o, 0, 6) == %d ==> sotdma_at(o, 149, m.radio_status)' % t, 149, 19, 'C16'),
    ]


SPARE10 = r'let \(\w+, \w+\) = take_bits::<_, u8, _, _>\(10u8\)\((\w+)\)\?;'


def apply_base_station_report(fc):
    std_message(fc, 't4', 'BaseStationReport', base_station_fields(4), {'C14': ['fld(o, 0, 6) == 4 ==> (r is Ok <==> n >= 168)']})
    # a 10-bit spare read into a u8: nom's first left shift must stay below 8, which depends on the bit offset (2 here)


def apply_utc_date_response(fc):
    std_message(fc, 't11', 'UtcDateResponse', base_station_fields(11), {'C14': ['fld(o, 0, 6) == 11 ==> (r is Ok <==> n >= 168)']})


# ---------------------------------------------------------------------------------------------- 5
T5 = HDR + [
    ('ais_version', 'raw', 38, 2, 'C04'),
    ('imo_number', 'raw', 40, 30, 'C04'),
    ('callsign', 'text:7', 70, 42, 'C13'),
    ('vessel_name', 'text:20', 112, 120, 'C13'),
    ('ship_type', 'enum:shiptype_spec:u8', 232, 8, 'C12'),
    ('dimension_to_bow', 'raw', 240, 9, 'C04'),
    ('dimension_to_stern', 'raw', 249, 9, 'C04'),
    ('dimension_to_port', 'raw', 258, 6, 'C04'),
    ('dimension_to_starboard', 'raw', 264, 6, 'C04'),
    ('epfd_type', 'enum:epfd_spec:u8', 270, 4, 'C12'),
    ('eta_month_utc', 'expr:m.eta_month_utc == opt_ne_u8(fld(o, 274, 4), 0)', 274, 4, 'C11'),
    ('eta_day_utc', 'expr:m.eta_day_utc == opt_ne_u8(fld(o, 278, 5), 0)', 278, 5, 'C11'),
    ('eta_hour_utc', 'raw', 283, 5, 'C04'),
    ('eta_minute_utc', 'expr:m.eta_minute_utc == opt_ne_u8(fld(o, 288, 6), 60)', 288, 6, 'C11'),
    ('draught', 'rel:draught_rel:u8', 294, 8, 'C10'),
    # destination: as many whole characters as are present, at most 20 (truncated transmissions occur in practice)
    ('destination', 'expr:m.destination@ == text6(o, 302, (if n - 302 >= 120 { 120 } else { n - 302 }) / 6)', 302, 120, 'C14'),
    # DTE at bit 422 when the message is complete; 'not ready' when no bit is left after the (truncated) destination
    ('dte', 'expr:(n >= 424 ==> m.dte == dte_spec(fld(o, 422, 1) as u8)) && (n < 422 && (n - 302) % 6 == 0 ==> m.dte == Dte::NotReady)', 422, 1, 'C14'),
    # C13 names the destination among the text fields ("the decoding of its bit range": the range is the one C14 defines), and C12 names
    # DTE among the enumerated codes: both are obligations of those properties too (round-4 change C13-u13-m2 was refuted under C14 only)
    ('destination', 'expr:m.destination@ == text6(o, 302, (if n - 302 >= 120 { 120 } else { n - 302 }) / 6)', 302, 120, 'C13'),
    ('dte', 'expr:(n >= 424 ==> m.dte == dte_spec(fld(o, 422, 1) as u8))', 422, 1, 'C12'),
]


def apply_static_and_voyage(fc):
    std_message(fc, 't5', 'StaticAndVoyageRelatedData', T5, {'C14': ['r is Ok <==> n >= 302']}, fn='parse_message', signed=())
    fc.replace_in_re('parse_message', r'\|(\w+)\| \{(?=\s*\1 as f32\b)', r'|\1: u8| -> (o: f32) ensures draught_rel(\1, o) /*@C10*/, { ' + F32)


# ---------------------------------------------------------------------------------------------- 6 / 8 / 17 (C15)
T6 = HDR + [
    ('seqno', 'raw', 38, 2, 'C04'), ('dest_mmsi', 'raw', 40, 30, 'C04'), ('retransmit', 'bool', 70, 1, 'C04'),
    ('dac', 'raw', 72, 10, 'C04'), ('fid', 'raw', 82, 6, 'C04'),
    # C15 names the application identifier fields as well as the payload bytes
    ('dac', 'raw', 72, 10, 'C15'), ('fid', 'raw', 82, 6, 'C15'),
    ('data', 'expr:m.data@ =~= o.subrange(11, o.len() as int)', 88, 0, 'C15'),
]
T8 = HDR + [
    ('dac', 'raw', 40, 10, 'C04'), ('fid', 'raw', 50, 6, 'C04'),
    ('dac', 'raw', 40, 10, 'C15'), ('fid', 'raw', 50, 6, 'C15'),
    ('data', 'expr:m.data@ =~= o.subrange(7, o.len() as int)', 56, 0, 'C15'),
]


def apply_binary_addressed(fc):
    std_message(fc, 't6', 'BinaryAddressedMessage', T6, {'C14': ['r is Ok <==> n >= 88']}, lifetime=True, signed=())


def apply_binary_broadcast(fc):
    std_message(fc, 't8', 'BinaryBroadcastMessage', T8, {'C14': ['r is Ok <==> n >= 56']}, lifetime=True, signed=(),
                more_spec='''
pub open spec fn carrier_sense_spec(d: u8) -> CarrierSense { if d == 0 { CarrierSense::Sotdma } else { CarrierSense::CarrierSense } }
pub open spec fn assigned_spec_bbm(d: u8) -> AssignedMode { if d == 0 { AssignedMode::Autonomous } else { AssignedMode::Assigned } }
''')
    fc.contract('parse', within='impl CarrierSense', requires=['val <= 1'], ensures=['r == carrier_sense_spec(val)'], tags=['C12'])
    fc.contract('parse', within='impl AssignedMode', requires=['val <= 1'], ensures=['r == assigned_spec_bbm(val)'], tags=['C12'])


T17 = HDR + [
    ('longitude', 'srel:lon10_rel', 40, 18, 'C10'),
    ('latitude', 'srel:lat10_rel', 58, 17, 'C10'),
    ('payload.message_type', 'raw', 80, 6, 'C15'), ('payload.station_id', 'raw', 86, 10, 'C15'), ('payload.z_count', 'raw', 96, 13, 'C15'),
    ('payload.sequence_number', 'raw', 109, 3, 'C15'), ('payload.n', 'raw', 112, 5, 'C15'), ('payload.health', 'raw', 117, 3, 'C15'),
    ('payload.data', 'expr:m.payload.data@ =~= o.subrange(15, o.len() as int)', 120, 0, 'C15'),
]


def apply_dgnss(fc):
    more = '''
pub open spec fn dcd_post(data: (&[u8], usize), r: nom::IResult<(&[u8], usize), DifferentialCorrectionData>) -> bool {
    &&& (r is Err ==> r->Err_0 is Error)
    &&& forall|orig: Seq<u8>, p: int| #[trigger] at(orig, data, p) && p % 8 == 0 ==>
        if 8 * orig.len() - p >= 40 {
            r is Ok && ({ let m = r->Ok_0.1;
                &&& m.message_type == fld(orig, p, 6) &&& m.station_id == fld(orig, p + 6, 10) &&& m.z_count == fld(orig, p + 16, 13)
                &&& m.sequence_number == fld(orig, p + 29, 3) &&& m.n == fld(orig, p + 32, 5) &&& m.health == fld(orig, p + 37, 3)
                &&& m.data@ =~= orig.subrange(p / 8 + 5, orig.len() as int) })
        } else { r is Err }
}
'''
    std_message(fc, 't17', 'DgnssBroadcastBinaryMessage', T17, {'C14': ['r is Ok <==> n >= 120']}, signed=(18, 17), more_spec=more)
    fc.contract('parse', within='impl DifferentialCorrectionData', requires=['cur_ok(data)'], ensures=['dcd_post(data, r)'], tags=['C15', 'C04'])
    fc.contract('parse_longitude_min_10', ensures=['lon10_rel(data, r)'], tags=['C10', 'C11'])
    fc.body_prefix('parse_longitude_min_10', F32)
    fc.contract('parse_latitude_min_10', ensures=['lat10_rel(data, r)'], tags=['C10', 'C11'])
    fc.body_prefix('parse_latitude_min_10', F32)


# ---------------------------------------------------------------------------------------------- 7 / 13 / 20 (lists)
def ack_spec(struct, prefix):
    return '''
''' + leaf_post('ack_post', 'Acknowledgement', 32, 'x.mmsi == v / 4 - 0 * v && x.mmsi == fld(orig, p, 30) && x.seq_num == fld(orig, p + 30, 2)').replace('x.mmsi == v / 4 - 0 * v && ', '').replace('%', '%%') + '''
pub open spec fn %(p)s_C04(o: Seq<u8>, r: core::result::Result<%(s)s, ()>) -> bool {
    let n = 8 * o.len();
    let k = if (n - 40) / 32 >= 4 { 4 } else { (n - 40) / 32 };
    r is Ok ==> { let m = r->Ok_0;
        &&& m.message_type == fld(o, 0, 6) &&& m.repeat_indicator == fld(o, 6, 2) &&& m.mmsi == fld(o, 8, 30)
        &&& forall|j: int| 0 <= j < k && j < m.acks@.len() ==> (#[trigger] m.acks@[j]).mmsi == fld(o, 40 + 32 * j, 30) && m.acks@[j].seq_num == fld(o, 70 + 32 * j, 2)
    }
}
/// one to four acknowledgements: as many as are completely present
pub open spec fn %(p)s_C14(o: Seq<u8>, r: core::result::Result<%(s)s, ()>) -> bool {
    let n = 8 * o.len();
    let k = if (n - 40) / 32 >= 4 { 4 } else { (n - 40) / 32 };
    &&& (r is Ok <==> n >= 72)
    &&& (r is Ok ==> r->Ok_0.acks@.len() == k)
}
''' % dict(p=prefix, s=struct)


def apply_ack(fc, struct, prefix):
    fc.add_prologue(MSG_PROLOGUE)
    fc.add_epilogue(ack_spec(struct, prefix))
    fc.contract('parse', within='impl Acknowledgement', requires=['cur_ok(data)'], ensures=['ack_post(data, r)'], tags=['C04', 'C14'])
    inner = ['%s_C04(data.0@, strip(r))' % prefix, '%s_C14(data.0@, strip(r))' % prefix]
    fc.contract('parse_base', requires=['small(data@.len() as int)'], ensures=['%s_C04(data@, strip(r))' % prefix, '%s_C14(data@, strip(r))' % prefix])
    apply_bits_closure(fc, 'parse_base', struct, inner, True)
    fc.contract('parse', within='for %s' % struct, ensures=['%s_C04(data@, strip1(r))' % prefix, '%s_C14(data@, strip1(r))' % prefix])


def apply_binary_acknowledge(fc):
    apply_ack(fc, 'BinaryAcknowledge', 't7')


def apply_safety_ack(fc):
    apply_ack(fc, 'SafetyRelatedAcknowledge', 't13')


def apply_dlm(fc):
    fc.add_prologue(MSG_PROLOGUE)
    fc.add_epilogue('''
''' + leaf_post('slot_post', 'SlotReservation', 30, 'x.offset == fld(orig, p, 12) && x.num_slots == fld(orig, p + 12, 4) && x.timeout == fld(orig, p + 16, 3) && x.increment == fld(orig, p + 19, 11)') + '''
pub open spec fn t20_C04(o: Seq<u8>, r: core::result::Result<DataLinkManagementMessage, ()>) -> bool {
    let n = 8 * o.len();
    let k = if (n - 40) / 30 >= 4 { 4 } else { (n - 40) / 30 };
    r is Ok ==> { let m = r->Ok_0;
        &&& m.message_type == fld(o, 0, 6) &&& m.repeat_indicator == fld(o, 6, 2) &&& m.mmsi == fld(o, 8, 30)
        &&& forall|j: int| 0 <= j < k && j < m.reservations@.len() ==> ({ let s = #[trigger] m.reservations@[j];
            s.offset == fld(o, 40 + 30 * j, 12) && s.num_slots == fld(o, 52 + 30 * j, 4) && s.timeout == fld(o, 56 + 30 * j, 3) && s.increment == fld(o, 59 + 30 * j, 11) })
    }
}
/// one to four reservation blocks: as many as are completely present
pub open spec fn t20_C14(o: Seq<u8>, r: core::result::Result<DataLinkManagementMessage, ()>) -> bool {
    let n = 8 * o.len();
    let k = if (n - 40) / 30 >= 4 { 4 } else { (n - 40) / 30 };
    &&& (r is Ok <==> n >= 70)
    &&& (r is Ok ==> r->Ok_0.reservations@.len() == k)
}
''')
    fc.contract('parse', within='impl SlotReservation', requires=['cur_ok(data)'], ensures=['slot_post(data, r)'], tags=['C04', 'C14'])
    inner = ['t20_C04(data.0@, strip(r))', 't20_C14(data.0@, strip(r))']
    fc.contract('parse_base', requires=['small(data@.len() as int)'], ensures=['t20_C04(data@, strip(r))', 't20_C14(data@, strip(r))'])
    apply_bits_closure(fc, 'parse_base', 'DataLinkManagementMessage', inner, True)
    fc.contract('parse', within='for DataLinkManagementMessage', ensures=['t20_C04(data@, strip1(r))', 't20_C14(data@, strip1(r))'])


# ---------------------------------------------------------------------------------------------- 9
T9 = HDR + [
    ('altitude', 'expr:m.altitude == opt_ne_u16(fld(o, 38, 12), 4095)', 38, 12, 'C11'),
    ('speed_over_ground', 'rel:sog_sar_rel:u16', 50, 10, 'C10'),
    ('position_accuracy', 'enum:accuracy_spec:u8', 60, 1, 'C12'),
    ('longitude', 'srel:lon_rel', 61, 28, 'C10'),
    ('latitude', 'srel:lat_rel', 89, 27, 'C10'),
    ('course_over_ground', 'rel:cog_rel:u16', 116, 12, 'C10'),
    ('timestamp', 'raw', 128, 6, 'C04'),
    ('dte', 'enum:dte_spec:u8', 142, 1, 'C12'),
    ('assigned_mode', 'enum:assigned_spec:u8', 146, 1, 'C12'),
    ('raim', 'bool', 147, 1, 'C04'),
    # communication state selector flag at 148: 0 SOTDMA, 1 ITDMA; state in the last 19 bits
    ('radio_status', 'expr:(fld(o, 148, 1) == 0 ==> sotdma_at(o, 149, m.radio_status)) && (fld(o, 148, 1) == 1 ==> itdma_at(o, 149, m.radio_status))', 149, 19, 'C16'),
]


T9_EXTRA = {'C14': ['fld(o, 0, 6) == 9 ==> (r is Ok <==> n >= 168)'],
            # signature of known finding D5: the selector bit is not consumed, SOTDMA is read one bit early
            'KFD5': ['fld(o, 0, 6) == 9 && r is Ok ==> sotdma_at(o, 148, r->Ok_0.radio_status)']}


def apply_sar(fc):
    std_message(fc, 't9', 'SARPositionReport', T9, T9_EXTRA)
    fc.contract('parse_altitude', ensures=['r == opt_ne_u16(data as int, 4095)'], tags=['C11', 'C04'])
    fc.contract('parse_speed_over_ground_sar', ensures=['sog_sar_rel(data, r)'], tags=['C10', 'C11'])


# ---------------------------------------------------------------------------------------------- 10
T10 = HDR + [('dest_mmsi', 'raw', 40, 30, 'C04')]


def apply_utc_inquiry(fc):
    std_message(fc, 't10', 'UtcDateInquiry', T10, {'C14': ['r is Ok <==> n >= 72']}, signed=())


# ---------------------------------------------------------------------------------------------- 12 / 14
T12 = HDR + [
    ('seqno', 'raw', 38, 2, 'C04'), ('dest_mmsi', 'raw', 40, 30, 'C04'), ('retransmit', 'bool', 70, 1, 'C04'),
    ('text', 'expr:m.text@ == text6(o, 72, (n - 72) / 6)', 72, 0, 'C13'),
]
T14 = HDR + [('text', 'expr:m.text@ == text6(o, 40, (n - 40) / 6)', 40, 0, 'C13')]


def apply_addressed_safety(fc):
    # a safety text needs at least one character
    std_message(fc, 't12', 'AddressedSafetyRelatedMessage', T12, {'C14': ['r is Ok <==> n >= 78']}, signed=())


def apply_safety_broadcast(fc):
    std_message(fc, 't14', 'SafetyRelatedBroadcastMessage', T14, {'C14': ['r is Ok <==> n >= 46']}, signed=())


# ---------------------------------------------------------------------------------------------- 16
T16 = HDR + [
    ('mmsi1', 'raw', 40, 30, 'C04'), ('offset1', 'raw', 70, 12, 'C04'), ('increment1', 'raw', 82, 10, 'C04'),
    ('second', 'expr:(n >= 144 ==> m.mmsi2 == Some(fld(o, 92, 30) as u32) && m.offset2 == Some(fld(o, 122, 12) as u16) && m.increment2 == Some(fld(o, 134, 10) as u16))', 92, 52, 'C04'),
    ('second_present', 'expr:(n >= 144 <==> m.mmsi2 is Some) && (n < 144 ==> m.offset2 is None && m.increment2 is None)', 92, 52, 'C14'),
]


def apply_assignment(fc):
    std_message(fc, 't16', 'AssignmentModeCommand', T16, {'C14': ['r is Ok <==> n >= 92']}, signed=())


# ---------------------------------------------------------------------------------------------- 18
T18 = HDR + [
    ('speed_over_ground', 'rel:sog_rel:u16', 46, 10, 'C10'),
    ('position_accuracy', 'enum:accuracy_spec:u8', 56, 1, 'C12'),
    ('longitude', 'srel:lon_rel', 57, 28, 'C10'),
    ('latitude', 'srel:lat_rel', 85, 27, 'C10'),
    ('course_over_ground', 'rel:cog_rel:u16', 112, 12, 'C10'),
    ('true_heading', 'enum:heading_spec:u16', 124, 9, 'C11'),
    ('timestamp', 'raw', 133, 6, 'C04'),
    ('cs_unit', 'enum:cs_unit_spec:u8', 141, 1, 'C12'),
    ('has_display', 'bool', 142, 1, 'C04'), ('has_dsc', 'bool', 143, 1, 'C04'), ('whole_band', 'bool', 144, 1, 'C04'),
    ('accepts_message_22', 'bool', 145, 1, 'C04'),
    ('assigned_mode', 'enum:assigned_spec:u8', 146, 1, 'C12'),
    ('raim', 'bool', 147, 1, 'C04'),
    ('radio_status', 'expr:(fld(o, 148, 1) == 0 ==> sotdma_at(o, 149, m.radio_status)) && (fld(o, 148, 1) == 1 ==> itdma_at(o, 149, m.radio_status))', 149, 19, 'C16'),
]


def apply_class_b(fc):
    std_message(fc, 't18', 'StandardClassBPositionReport', T18, {'C14': ['r is Ok <==> n >= 168']},
                more_spec='''
/// class B unit flag: 0 = SOTDMA unit, 1 = carrier-sense unit
pub open spec fn cs_unit_spec(d: u8) -> CarrierSense { if d == 0 { CarrierSense::Sotdma } else { CarrierSense::CarrierSense } }
''')
    fc.contract('parse', within='impl CarrierSense', requires=['val <= 1'], ensures=['r == cs_unit_spec(val)'], tags=['C12'])


# ---------------------------------------------------------------------------------------------- 19
T19 = HDR + [
    ('speed_over_ground', 'rel:sog_rel:u16', 46, 10, 'C10'),
    ('position_accuracy', 'enum:accuracy_spec:u8', 56, 1, 'C12'),
    ('longitude', 'srel:lon_rel', 57, 28, 'C10'),
    ('latitude', 'srel:lat_rel', 85, 27, 'C10'),
    ('course_over_ground', 'rel:cog_rel:u16', 112, 12, 'C10'),
    ('true_heading', 'enum:heading_spec:u16', 124, 9, 'C11'),
    ('timestamp', 'raw', 133, 6, 'C04'),
    ('name', 'text:20', 143, 120, 'C13'),
    ('type_of_ship_and_cargo', 'enum:shiptype_spec:u8', 263, 8, 'C12'),
    ('dimension_to_bow', 'raw', 271, 9, 'C04'), ('dimension_to_stern', 'raw', 280, 9, 'C04'),
    ('dimension_to_port', 'raw', 289, 6, 'C04'), ('dimension_to_starboard', 'raw', 295, 6, 'C04'),
    ('epfd_type', 'enum:epfd_spec:u8', 301, 4, 'C12'),
    ('raim', 'bool', 305, 1, 'C04'),
    ('dte', 'enum:dte_spec:u8', 306, 1, 'C12'),
    ('assigned_mode', 'enum:assigned_spec:u8', 307, 1, 'C12'),
]


def apply_ext_class_b(fc):
    std_message(fc, 't19', 'ExtendedClassBPositionReport', T19, {'C14': ['r is Ok <==> n >= 312']})


# ---------------------------------------------------------------------------------------------- 21
NAVAID = ['ReferencePoint', 'Racon', 'FixedStructureOffShore', 'Spare', 'LightWithoutSectors', 'LightWithSectors', 'LeadingLightFront',
          'LeadingLightRear', 'BeaconCardinalN', 'BeaconCardinalE', 'BeaconCardinalS', 'BeaconCardinalW', 'BeaconPortHand', 'BeaconStarboardHand',
          'BeaconPreferredChannelPortHand', 'BeaconPreferredChannelStarboardHand', 'BeaconIsolatedDanger', 'BeaconSafeWater', 'BeaconSpecialMark',
          'CardinalMarkN', 'CardinalMarkE', 'CardinalMarkS', 'CardinalMarkW', 'PortHandMark', 'StarboardHandMark', 'PreferredChannelPortHand',
          'PreferredChannelStarboardHand', 'IsolatedDanger', 'SafeWater', 'SpecialMark', 'LightVesselOrLanbyOrRigs']
T21 = HDR + [
    ('aid_type', 'enum:navaid_spec:u8', 38, 5, 'C12'),
    ('name', 'text:20', 43, 120, 'C13'),
    ('accuracy', 'enum:accuracy_spec:u8', 163, 1, 'C12'),
    ('longitude', 'srel:lon_rel', 164, 28, 'C10'),
    ('latitude', 'srel:lat_rel', 192, 27, 'C10'),
    ('dimension_to_bow', 'raw', 219, 9, 'C04'), ('dimension_to_stern', 'raw', 228, 9, 'C04'),
    ('dimension_to_port', 'raw', 237, 6, 'C04'), ('dimension_to_starboard', 'raw', 243, 6, 'C04'),
    ('epfd_type', 'enum:epfd_spec:u8', 249, 4, 'C12'),
    ('utc_second', 'raw', 253, 6, 'C04'),
    ('off_position', 'bool', 259, 1, 'C04'),
    ('regional_reserved', 'raw', 260, 8, 'C04'),
    ('raim', 'bool', 268, 1, 'C04'), ('virtual_aid', 'bool', 269, 1, 'C04'), ('assigned_mode', 'bool', 270, 1, 'C04'),
]


def apply_aton(fc):
    more = '''
/// type of aid to navigation (M.1371 Table 74): 0 not specified = absent, 1..31 named
pub open spec fn navaid_spec(d: u8) -> Option<NavaidType> {
    if d == 0 { None } else ''' + ' else '.join('if d == %d { Some(NavaidType::%s) }' % (i + 1, n) for i, n in enumerate(NAVAID)) + ''' else { Some(NavaidType::Unknown(d)) }
}
pub proof fn navaid_injective(a: u8, b: u8) requires navaid_spec(a) == navaid_spec(b), navaid_spec(a) is Some ensures a == b {}
'''
    std_message(fc, 't21', 'AidToNavigationReport', T21, {'C14': ['r is Ok <==> n >= 272']}, fn='parse_message', more_spec=more)
    fc.contract('parse', within='impl NavaidType', ensures=['r == navaid_spec(data)'], tags=['C12'])
    fc.lemma('navaid_injective', ['C12'])


# ---------------------------------------------------------------------------------------------- 24
def apply_static_data(fc):
    more = '''
pub open spec fn part_at(o: Seq<u8>, part: MessagePart) -> bool {
    let pn = fld(o, 38, 2);
    &&& (pn == 0 ==> part is PartA && part->vessel_name@ == text6(o, 40, 20))
    &&& (pn == 1 ==> part is PartB && ({
            &&& part->ship_type == shiptype_spec(fld(o, 40, 8) as u8)
            &&& part->vendor_id@ == text6(o, 48, 3)
            &&& part->model_serial@ == text6(o, 66, 4)
            &&& part->unit_model_code == fld(o, 66, 4)
            &&& part->serial_number == fld(o, 70, 20)
            &&& part->PartB_callsign@ == text6(o, 90, 7)
            &&& part->PartB_dimension_to_bow == fld(o, 132, 9)
            &&& part->PartB_dimension_to_stern == fld(o, 141, 9)
            &&& part->PartB_dimension_to_port == fld(o, 150, 6)
            &&& part->PartB_dimension_to_starboard == fld(o, 156, 6) }))
    &&& (pn >= 2 ==> part == MessagePart::Unknown(pn as u8))
}
pub open spec fn part_post(data: (&[u8], usize), r: nom::IResult<(&[u8], usize), MessagePart>) -> bool {
    &&& (r is Err ==> r->Err_0 is Error)
    &&& forall|orig: Seq<u8>| #[trigger] at(orig, data, 38) ==> ({
        let n = 8 * orig.len(); let pn = fld(orig, 38, 2);
        &&& (r is Ok <==> n >= 40 && (pn == 0 ==> n >= 160) && (pn == 1 ==> n >= 168))
        &&& (r is Ok ==> part_at(orig, r->Ok_0.1)) })
}
pub open spec fn t24_C04(o: Seq<u8>, r: core::result::Result<StaticDataReport, ()>) -> bool {
    r is Ok ==> { let m = r->Ok_0; m.message_type == fld(o, 0, 6) && m.repeat_indicator == fld(o, 6, 2) && m.mmsi == fld(o, 8, 30) && part_at(o, m.message_part) }
}
/// part A with or without its 8 spare bits (160 / 168 bits), part B 168 bits
pub open spec fn t24_C14(o: Seq<u8>, r: core::result::Result<StaticDataReport, ()>) -> bool {
    let n = 8 * o.len(); let pn = fld(o, 38, 2);
    r is Ok <==> n >= 40 && (pn == 0 ==> n >= 160) && (pn == 1 ==> n >= 168)
}
'''
    fc.add_prologue(MSG_PROLOGUE)
    fc.add_epilogue(more)
    fc.contract('parse_message_part', requires=['cur_ok(data)'], ensures=['part_post(data, r)'], tags=['C04', 'C12', 'C13', 'C14'])
    inner = ['t24_C04(data.0@, strip(r))', 't24_C14(data.0@, strip(r))']
    fc.contract('parse_message', requires=['small(data@.len() as int)'], ensures=['t24_C04(data@, strip(r))', 't24_C14(data@, strip(r))'])
    apply_bits_closure(fc, 'parse_message', 'StaticDataReport', inner)
    fc.contract('parse', within='for StaticDataReport', ensures=['t24_C04(data@, strip1(r))', 't24_C14(data@, strip1(r))'])


# ---------------------------------------------------------------------------------------------- 27
T27 = HDR + [
    ('position_accuracy', 'enum:accuracy_spec:u8', 38, 1, 'C12'),
    ('raim', 'bool', 39, 1, 'C04'),
    ('navigation_status', 'enum:navstatus_spec:u8', 40, 4, 'C12'),
    # 1/10 minute resolution: 181 / 91 degrees are 108 600 / 54 600
    ('longitude', 'expr:(m.longitude is None <==> sext(fld(o, 44, 18), 18) == 108_600)', 44, 18, 'C11'),
    ('latitude', 'expr:(m.latitude is None <==> sext(fld(o, 62, 17), 17) == 54_600)', 62, 17, 'C11'),
    ('longitude', 'expr:(m.longitude is Some ==> deg10_via_1000(sext(fld(o, 44, 18), 18) as i32, m.longitude->Some_0))', 44, 18, 'C10'),
    ('latitude', 'expr:(m.latitude is Some ==> deg10_via_1000(sext(fld(o, 62, 17), 17) as i32, m.latitude->Some_0))', 62, 17, 'C10'),
    ('speed_over_ground', 'rel:sog27_rel:u16', 79, 6, 'C10'),
    ('course_over_ground', 'rel:cog27_rel:u16', 85, 9, 'C10'),
    ('gnss_position_status', 'bool', 94, 1, 'C04'),
]


def apply_long_range(fc):
    more = '''
/// the implementation's arithmetic for 1/10-minute coordinates: ((x as f32) / 600000) * 1000 — two roundings.
/// V pins the formula and the field; that this is raw/600 up to single-precision rounding (<= 4 ulp over all
/// 2^18 raw values) is a K obligation (see DESIGN.md C10).
pub open spec fn deg10_via_1000(x: i32, v: f32) -> bool {
    exists|c: f32| #[trigger] float_cast_spec::<i32, f32>(x, c) && v == c.div_spec(600000.0f32).mul_spec(1000.0f32)
}
/// helper contract of the two coordinate closures (shape taken from the code; `sentinel` is what the code compares with)
pub open spec fn coord27_post(t: u8, sentinel: i32, x: i32, o: Option<f32>) -> bool {
    &&& (o is None <==> x == sentinel)
    &&& (o is Some && t == 27 ==> deg10_via_1000(x, o->Some_0))
}
'''
    std_message(fc, 't27', 'LongRangeAisBroadcastMessage', T27, {'C14': ['r is Ok <==> n >= 96']}, signed=(18, 17), guard='fld(o, 0, 6) == 27', more_spec=more)
    # the anchor captures the constant the code compares with and hands it to the helper contract (shape from the code); that the constant is
    # the 'not available' code is said by t27_C11 alone.  (Before round 5 the anchor spelled the constants out, so that a changed constant
    # -- C11-v11-m2 -- lost the anchor instead of failing t27_C11.)  First match: longitude (18 bits), second: latitude (17 bits).
    COORD_RE = r'\|(\w+)\| \{(?=\s*if \1 == (-?[\d_]+) \{)'
    fc.replace_in_re('parse_base', COORD_RE, r'|\1: i32| -> (o: Option<f32>) requires -131072 <= \1 < 131072, ensures coord27_post(message_type, \2, \1, o) /*@C10*/ /*@C11*/, { ' + F32, occ=0)
    fc.replace_in_re('parse_base', COORD_RE, r'|\1: i32| -> (o: Option<f32>) requires -65536 <= \1 < 65536, ensures coord27_post(message_type, \2, \1, o) /*@C10*/ /*@C11*/, { ' + F32, occ=1)
    fc.replace_in_re('parse_base', r'\.map\(\|(\w+)\| \{', r'.map(|\1: f32| -> (w: f32) ensures w == (if message_type == 27 { \1.mul_spec(1000.0f32) } else { \1 }) /*@C10*/, {', occ='all')
    fc.contract('parse_speed_over_ground_62', ensures=['sog27_rel(data, r)'], tags=['C10', 'C11'])
    fc.contract('parse_cog_511', ensures=['cog27_rel(data, r)'], tags=['C10', 'C11'])


# ---------------------------------------------------------------------------------------------- 15
def apply_interrogation(fc):
    more = '''
pub open spec fn imsg_post(data: (&[u8], usize), r: nom::IResult<(&[u8], usize), Message>) -> bool {
    &&& (r is Err ==> r->Err_0 is Error)
    &&& (r is Ok ==> cur_ok(r->Ok_0.0))
    &&& forall|orig: Seq<u8>, p: int| #[trigger] at(orig, data, p) ==> ({
        let rem = 8 * orig.len() - p;
        &&& (r is Ok <==> rem >= 6)
        &&& (r is Ok ==> r->Ok_0.1.message_type == fld(orig, p, 6))
        &&& (r is Ok && rem >= 18 ==> r->Ok_0.1.slot_offset == opt_ne_u16(fld(orig, p + 6, 12), 0) && at(orig, r->Ok_0.0, p + 18))
        &&& (r is Ok && rem < 18 ==> r->Ok_0.1.slot_offset is None && at(orig, r->Ok_0.0, p + 6)) })
}
/// a destination block at bit p: MMSI, first request, optional second request after 2 spare bits.
/// The second request is only specified when the first slot offset is present (rem >= 48); with a whole-byte
/// payload and the blocks at bits 40 / 110 the other case cannot arise (DESIGN.md C14).
pub open spec fn station_at(orig: Seq<u8>, p: int, s: Station) -> bool {
    let rem = 8 * orig.len() - p;
    &&& s.mmsi == fld(orig, p, 30)
    &&& 1 <= s.messages@.len() <= 2
    &&& s.messages@[0].message_type == fld(orig, p + 30, 6)
    &&& (rem >= 48 ==> s.messages@[0].slot_offset == opt_ne_u16(fld(orig, p + 36, 12), 0))
    &&& (rem < 48 ==> s.messages@[0].slot_offset is None)
    &&& (rem >= 48 && s.messages@.len() == 2 ==> rem >= 56 && s.messages@[1].message_type == fld(orig, p + 50, 6)
            && (rem >= 68 ==> s.messages@[1].slot_offset == opt_ne_u16(fld(orig, p + 56, 12), 0)) && (rem < 68 ==> s.messages@[1].slot_offset is None))
    // the second request is reported exactly when it is present and not all-zero
    &&& (rem >= 48 ==> (s.messages@.len() == 2 <==> rem >= 56 && (fld(orig, p + 50, 6) != 0 || (rem >= 68 && fld(orig, p + 56, 12) != 0))))
}
/// where the cursor stands after a destination block (helper, follows the code)
pub open spec fn station_end(orig: Seq<u8>, p: int) -> int {
    let rem = 8 * orig.len() - p;
    if rem < 44 { p + 36 } else if rem < 48 { p + 44 } else if rem < 56 { p + 48 } else if rem < 68 { p + 56 } else { p + 68 }
}
pub open spec fn station_post(data: (&[u8], usize), r: nom::IResult<(&[u8], usize), Station>) -> bool {
    &&& (r is Err ==> r->Err_0 is Error)
    &&& (r is Ok ==> cur_ok(r->Ok_0.0))
    &&& forall|orig: Seq<u8>, p: int| #[trigger] at(orig, data, p) ==> ({
        &&& (r is Ok <==> 8 * orig.len() - p >= 36)
        &&& (r is Ok ==> station_at(orig, p, r->Ok_0.1) && at(orig, r->Ok_0.0, station_end(orig, p))) })
}
/// M.1371 Table 62: destination 1 at bit 40, destination 2 at bit 110 (after the 2 spare bits 108..109)
pub open spec fn t15_C04(o: Seq<u8>, r: core::result::Result<Interrogation, ()>) -> bool {
    let n = 8 * o.len();
    r is Ok ==> { let m = r->Ok_0;
        &&& m.message_type == fld(o, 0, 6) &&& m.repeat_indicator == fld(o, 6, 2) &&& m.mmsi == fld(o, 8, 30)
        &&& 1 <= m.stations@.len() <= 2
        &&& station_at(o, 40, m.stations@[0])
        &&& (m.stations@.len() == 2 ==> n >= 146 && station_at(o, 110, m.stations@[1]))
    }
}
/// one destination (88 or 110 bits) or two (160 bits).  Mandatory part: destination 1 and its first message id
/// (76 bits; the slot offset has an 'absent' encoding).  The second destination is reported exactly when its
/// MMSI and first message id are present (bits 110..145).
pub open spec fn t15_C14(o: Seq<u8>, r: core::result::Result<Interrogation, ()>) -> bool {
    let n = 8 * o.len();
    &&& (r is Ok <==> n >= 76)
    &&& (r is Ok ==> (r->Ok_0.stations@.len() == 2 <==> n >= 146))
}
'''
    fc.add_prologue(MSG_PROLOGUE)
    fc.add_epilogue(more)
    fc.contract('parse', within='impl Message', requires=['cur_ok(data)'], ensures=['imsg_post(data, r)'], tags=['C04', 'C11', 'C14'])
    fc.contract('parse', within='impl Station', requires=['cur_ok(data)'], ensures=['station_post(data, r)'], tags=['C04', 'C11', 'C14'])
    inner = ['t15_C04(data.0@, strip(r))', 't15_C14(data.0@, strip(r))']
    fc.contract('parse_message', requires=['small(data@.len() as int)'], ensures=['t15_C04(data@, strip(r))', 't15_C14(data@, strip(r))'])
    apply_bits_closure(fc, 'parse_message', 'Interrogation', inner)
    fc.contract('parse', within='for Interrogation', ensures=['t15_C04(data@, strip1(r))', 't15_C14(data@, strip1(r))'])


FILES = {
    'messages/base_station_report.rs': apply_base_station_report,
    'messages/utc_date_response.rs': apply_utc_date_response,
    'messages/static_and_voyage_related_data.rs': apply_static_and_voyage,
    'messages/binary_addressed.rs': apply_binary_addressed,
    'messages/binary_broadcast_message.rs': apply_binary_broadcast,
    'messages/dgnss_broadcast_binary_message.rs': apply_dgnss,
    'messages/binary_acknowledge.rs': apply_binary_acknowledge,
    'messages/safety_related_acknowledgment.rs': apply_safety_ack,
    'messages/data_link_management_message.rs': apply_dlm,
    'messages/standard_aircraft_position_report.rs': apply_sar,
    'messages/utc_date_inquiry.rs': apply_utc_inquiry,
    'messages/addressed_safety_related.rs': apply_addressed_safety,
    'messages/safety_related_broadcast.rs': apply_safety_broadcast,
    'messages/assignment_mode_command.rs': apply_assignment,
    'messages/standard_class_b_position_report.rs': apply_class_b,
    'messages/extended_class_b_position_report.rs': apply_ext_class_b,
    'messages/aid_to_navigation_report.rs': apply_aton,
    'messages/static_data_report.rs': apply_static_data,
    'messages/long_range_ais_broadcast.rs': apply_long_range,
    'messages/interrogation.rs': apply_interrogation,
}


# ---------------------------------------------------------------------------------------------- dispatch table (C09)
def _tags(fields, extra):
    fields = layout.expand(fields)
    tags = []
    for f in fields:
        if f[4] not in tags:
            tags.append(f[4])
    for t in (extra or {}):
        if t not in tags:
            tags.append(t)
    return tags


def type_table():
    """[(type numbers, AisMessage variant, module, struct, prefix, [tags])] — the variant column is the property's table"""
    import c_position_report as pr
    c14 = {'C14': []}
    return [
        ((1, 2, 3), 'PositionReport', 'position_report', 'PositionReport', 't1', _tags(pr.FIELDS, pr.EXTRA)),
        ((4,), 'BaseStationReport', 'base_station_report', 'BaseStationReport', 't4', _tags(base_station_fields(4), c14)),
        ((5,), 'StaticAndVoyageRelatedData', 'static_and_voyage_related_data', 'StaticAndVoyageRelatedData', 't5', _tags(T5, c14)),
        ((6,), 'BinaryAddressedMessage', 'binary_addressed', 'BinaryAddressedMessage', 't6', _tags(T6, c14)),
        ((7,), 'BinaryAcknowledgeMessage', 'binary_acknowledge', 'BinaryAcknowledge', 't7', ['C04', 'C14']),
        ((8,), 'BinaryBroadcastMessage', 'binary_broadcast_message', 'BinaryBroadcastMessage', 't8', _tags(T8, c14)),
        ((9,), 'StandardAircraftPositionReport', 'standard_aircraft_position_report', 'SARPositionReport', 't9', _tags(T9, T9_EXTRA)),
        ((10,), 'UtcDateInquiry', 'utc_date_inquiry', 'UtcDateInquiry', 't10', _tags(T10, c14)),
        ((11,), 'UtcDateResponse', 'utc_date_response', 'UtcDateResponse', 't11', _tags(base_station_fields(11), c14)),
        ((12,), 'AddressedSafetyRelatedMessage', 'addressed_safety_related', 'AddressedSafetyRelatedMessage', 't12', _tags(T12, c14)),
        ((13,), 'SafetyRelatedAcknowledgment', 'safety_related_acknowledgment', 'SafetyRelatedAcknowledge', 't13', ['C04', 'C14']),
        ((14,), 'SafetyRelatedBroadcastMessage', 'safety_related_broadcast', 'SafetyRelatedBroadcastMessage', 't14', _tags(T14, c14)),
        ((15,), 'Interrogation', 'interrogation', 'Interrogation', 't15', ['C04', 'C14']),
        ((16,), 'AssignmentModeCommand', 'assignment_mode_command', 'AssignmentModeCommand', 't16', _tags(T16, c14)),
        ((17,), 'DgnssBroadcastBinaryMessage', 'dgnss_broadcast_binary_message', 'DgnssBroadcastBinaryMessage', 't17', _tags(T17, c14)),
        ((18,), 'StandardClassBPositionReport', 'standard_class_b_position_report', 'StandardClassBPositionReport', 't18', _tags(T18, c14)),
        ((19,), 'ExtendedClassBPositionReport', 'extended_class_b_position_report', 'ExtendedClassBPositionReport', 't19', _tags(T19, c14)),
        ((20,), 'DataLinkManagementMessage', 'data_link_management_message', 'DataLinkManagementMessage', 't20', ['C04', 'C14']),
        ((21,), 'AidToNavigationReport', 'aid_to_navigation_report', 'AidToNavigationReport', 't21', _tags(T21, c14)),
        ((24,), 'StaticDataReport', 'static_data_report', 'StaticDataReport', 't24', ['C04', 'C14']),
        ((27,), 'LongRangeAisBroadcastMessage', 'long_range_ais_broadcast', 'LongRangeAisBroadcastMessage', 't27', _tags(T27, c14)),
    ]
