#!/usr/bin/env python3
"""apply a seeded change to /repo, run the given checks, undo it.  usage: seed_run.py <dir with patch.diff> <prop> [prop ...]"""
import json, os, subprocess, sys, time

def main():
    d = os.path.abspath(sys.argv[1])
    props = sys.argv[2:]
    out = {}
    st = subprocess.run('git -C /repo status --porcelain', shell=True, capture_output=True, text=True).stdout.strip()
    assert st == '', '/repo not clean: ' + st
    rc = subprocess.run('git -C /repo apply %s/patch.diff' % d, shell=True).returncode
    assert rc == 0
    try:
        for p in props:
            t = time.time()
            r = subprocess.run(['/verif/check', p], cwd='/verif', capture_output=True, text=True)
            lines = [l for l in r.stdout.split('\n') if l.strip()]
            out[p] = dict(exit=r.returncode, wall=round(time.time() - t, 1), stdout=lines[-6:], log=[l for l in r.stderr.split('\n') if 'refuted' in l or 'undecided' in l][:8])
    finally:
        subprocess.run('git -C /repo checkout -- . && git -C /repo clean -fdq', shell=True)
    print(json.dumps(out, indent=1))

if __name__ == '__main__':
    main()
