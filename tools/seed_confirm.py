#!/usr/bin/env python3
"""confirm a candidate mutation in a scratch worktree: existing tests pass with it; its demo fails with it and passes without.
usage: seed_confirm.py <dir with patch.diff demo.rs> -> prints JSON verdict"""
import json, os, subprocess, sys, shutil, tempfile

def sh(cmd, cwd, env=None, timeout=900):
    p = subprocess.run(cmd, cwd=cwd, shell=True, capture_output=True, text=True, env=env, timeout=timeout)
    return p.returncode, (p.stdout + p.stderr)

def main():
    d = os.path.abspath(sys.argv[1])
    wt = tempfile.mkdtemp(prefix='seedv.', dir='/tmp')
    os.rmdir(wt)
    env = dict(os.environ, CARGO_NET_OFFLINE='true', CARGO_TARGET_DIR=os.environ.get('SEED_TARGET', '/tmp/seedv-target'))
    res = {}
    try:
        rc, out = sh('git -C /repo worktree add -q --detach %s HEAD' % wt, '/')
        assert rc == 0, out
        rc, out = sh('git apply %s/patch.diff' % d, wt)
        res['applies'] = rc == 0
        if rc != 0:
            res['error'] = out[-500:]
            return res
        rc, out = sh('cargo test --offline 2>&1 | grep -E "^test result" ', wt, env)
        res['suite_with_patch'] = out.strip().split('\n')
        res['suite_passes_with_patch'] = all(' 0 failed' in l for l in res['suite_with_patch']) and any('59 passed' in l for l in res['suite_with_patch'])
        os.makedirs(os.path.join(wt, 'tests'), exist_ok=True)
        shutil.copy(os.path.join(d, 'demo.rs'), os.path.join(wt, 'tests', 'seed_demo.rs'))
        rc, out = sh('cargo test --offline --test seed_demo 2>&1 | tail -5', wt, env)
        res['demo_fails_with_patch'] = 'FAILED' in out or 'failed' in out and 'test result: ok' not in out
        res['demo_with_patch_tail'] = out[-300:]
        sh('git apply -R %s/patch.diff' % d, wt)
        rc, out = sh('cargo test --offline --test seed_demo 2>&1 | tail -5', wt, env)
        res['demo_passes_without_patch'] = 'test result: ok' in out
        res['demo_without_patch_tail'] = out[-300:]
    finally:
        sh('git -C /repo worktree remove --force %s' % wt, '/')
    res['confirmed'] = bool(res.get('suite_passes_with_patch') and res.get('demo_fails_with_patch') and res.get('demo_passes_without_patch'))
    return res

if __name__ == '__main__':
    r = main()
    print(json.dumps(r, indent=1))
