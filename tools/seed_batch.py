#!/usr/bin/env python3
"""one seeded change end to end: confirm it (tools/seed_confirm.py), then run the property's own check on a scratch worktree of /repo
with the change applied (VERIF_REPO=<worktree> ./check <P>), write <res>/<ID>_<mK>.txt in the format `seed_table.py record` reads.
usage: seed_batch.py <out dir> <ID e.g. U05> <m1|m2> <res dir> [<property, default C+ID[1:]>] [--tier thorough]"""
import json, os, subprocess, sys, tempfile

def main():
    out, ident, mk, res = sys.argv[1:5]
    rest = sys.argv[5:]
    prop = rest[0] if rest and rest[0].startswith('C') else 'C' + ident[1:]
    tier = 'thorough' if '--tier' in rest and 'thorough' in rest else 'quick'
    d = os.path.join(out, ident, mk)
    env = dict(os.environ, SEED_TARGET='/tmp/seed/target_%s_%s' % (ident, mk))
    if '--no-confirm' not in rest:
        c = subprocess.run([sys.executable, os.path.join(os.path.dirname(__file__), 'seed_confirm.py'), d], capture_output=True, text=True, env=env)
        open(os.path.join(res, 'conf_%s_%s.json' % (ident, mk)), 'w').write(c.stdout + c.stderr)
        subprocess.run('rm -rf ' + env['SEED_TARGET'], shell=True)
    wt = tempfile.mkdtemp(prefix='seedc.', dir='/tmp')
    os.rmdir(wt)
    try:
        subprocess.run('git -C /repo worktree add -q --detach %s HEAD && cp /repo/Cargo.lock %s/ && git -C %s apply %s/patch.diff' % (wt, wt, wt, os.path.abspath(d)), shell=True, check=True)
        r = subprocess.run(['./check', prop, '--tier', tier], cwd=os.path.dirname(os.path.dirname(os.path.abspath(__file__))), capture_output=True, text=True, env=dict(os.environ, VERIF_REPO=wt))
        so = ' '.join(l.strip() for l in r.stdout.split('\n') if l.strip())
        lg = ' '.join(l.strip() for l in r.stderr.split('\n') if 'refuted' in l or 'undecided' in l)[:3000]
        open(os.path.join(res, '%s_%s%s.txt' % (ident, mk, '' if prop == 'C' + ident[1:] else '_' + prop)), 'w').write('%s/%s %s exit=%d %s || %s\n' % (ident, mk, prop, r.returncode, so, lg))
        print(ident, mk, prop, 'exit', r.returncode, so[-200:])
    finally:
        subprocess.run('git -C /repo worktree remove --force %s' % wt, shell=True)

if __name__ == '__main__':
    main()
