#!/usr/bin/env python3
"""bookkeeping for /verif/seeded: (a) install the changes of a sub-agent round from a scratch directory, (b) record the outcome of the
property's own check per change from result files written by a batch run, (c) print the markdown table of DESIGN.md section 0.4.

usage:
  seed_table.py install <scratch out dir> <prefix, e.g. T> <round label>     (copies <dir>/<prefix>NN/mK/{patch.diff,demo.rs,notes.md})
  seed_table.py record <results dir> [<results dir> ...]                      (files <ID>_<mK>.txt: "<ID>/<mK> <prop> exit=<n> <stdout> || <log>")
  seed_table.py table
"""
import json
import os
import re
import shutil
import sys

ROOT = os.path.dirname(os.path.dirname(os.path.abspath(__file__)))
SEEDED = os.path.join(ROOT, 'seeded')


def seed_dir_name(ident, m):
    """C04/m1 -> C04-m1 ; R04/m2 -> C04-r04-m2 ; T09/m1 -> C09-t09-m1"""
    k, nn = ident[0], ident[1:]
    if k == 'C':
        return 'C%s-%s' % (nn, m)
    return 'C%s-%s%s-%s' % (nn, k.lower(), nn, m)


def install(src, prefix, label):
    props = dict((json.loads(l)['id'], json.loads(l)) for l in open(os.path.join(ROOT, 'properties.jsonl')))
    for d in sorted(os.listdir(src)):
        if not re.fullmatch(prefix + r'\d\d', d):
            continue
        for m in ('m1', 'm2'):
            s = os.path.join(src, d, m)
            if not os.path.exists(os.path.join(s, 'patch.diff')):
                continue
            name = seed_dir_name(d, m)
            t = os.path.join(SEEDED, name)
            os.makedirs(t, exist_ok=True)
            for f in ('patch.diff', 'demo.rs', 'notes.md'):
                if os.path.exists(os.path.join(s, f)):
                    shutil.copy(os.path.join(s, f), os.path.join(t, f))
            pid = 'C' + d[1:]
            notes = open(os.path.join(s, 'notes.md')).read() if os.path.exists(os.path.join(s, 'notes.md')) else ''
            meta = {
                'id': name, 'breaks_property': pid, 'property_title': props[pid]['title'], 'source': label,
                'needs_to_manifest': ' '.join(notes.split())[:1500],
                'confirmed_by': 'tools/seed_confirm.py in a scratch worktree: existing suite (59 unit + 1 doc test) passes with the change; demo.rs fails with it and passes without it',
                'checked_with': 'snapshot of /verif + scratch worktree of /repo: git apply patch.diff; VERIF_REPO=<worktree> ./check %s' % pid,
            }
            json.dump(meta, open(os.path.join(t, 'meta.json'), 'w'), indent=1)
            print('installed', name)


def record(dirs):
    for rd in dirs:
        for f in sorted(os.listdir(rd)):
            if not f.endswith('.txt') or f.startswith('last'):
                continue
            line = open(os.path.join(rd, f)).read().strip()
            m = re.match(r'(\w\d\d)/(m\d) (C\d\d) exit=(\d+) (.*)', line, re.S)
            if not m:
                print('skip', f)
                continue
            ident, mk, prop, ec, rest = m.groups()
            name = seed_dir_name(ident, mk)
            mp = os.path.join(SEEDED, name, 'meta.json')
            if not os.path.exists(mp):
                print('no seeded dir for', name)
                continue
            meta = json.load(open(mp))
            stdout, _, logs = rest.partition('||')
            ec = int(ec)
            first = ''
            mm = re.search(r'refuted obligation: (.*?)(?= \[check\]|$)', logs)
            if ec == 1 and mm:
                first = mm.group(1).strip()
            elif ec != 1:
                mm = re.search(r'first=(.*?)(?=  \|\||$)', stdout) or re.search(r'undecided: (.*?)(?= \[check\]|$)', logs)
                first = mm.group(1).strip() if mm else ''
            old_note = ''
            if 'NOTE' in meta.get('check_result', {}).get('outcome', ''):
                old_note = ' NOTE' + meta['check_result']['outcome'].split('NOTE', 1)[1]
            meta['check_result'] = {
                'exit': ec,
                'outcome': {0: 'MISSED (exit 0)', 1: 'detected (exit 1, VIOLATION)', 2: 'undecided (exit 2)'}.get(ec, 'exit %d' % ec) + old_note,
                'first_reported_obligation': first[:300],
                'no_failing_input_found': 'no-failing-input-found' in stdout and not re.search(r'replay=\S+\s+(VIOLATION|$)', stdout.strip()),
                'stdout': ' '.join(stdout.split())[:400],
            }
            json.dump(meta, open(mp, 'w'), indent=1)


def table():
    rows = []
    for name in sorted(os.listdir(SEEDED)):
        mp = os.path.join(SEEDED, name, 'meta.json')
        if not os.path.exists(mp):
            continue
        meta = json.load(open(mp))
        cr = meta.get('check_result', {})
        ec = cr.get('exit')
        out = {0: '**MISSED**', 1: '**detected**', 2: 'undecided (exit 2)'}.get(ec, '?')
        rnd = '6' if '-w' in name else '5' if '-v' in name else '4' if '-u' in name else '3' if '-t' in name else ('2' if '-r' in name else '1')
        rows.append((name, rnd, out, (cr.get('first_reported_obligation') or '').replace('|', '\\|')[:130]))
    print('| change | round | outcome | first refuted obligation / reason |')
    print('|---|---|---|---|')
    for r in rows:
        print('| %s | %s | %s | %s |' % r)
    n = len(rows)
    print()
    print('total %d: detected %d, undecided %d, missed %d' % (n, sum(1 for r in rows if 'detected' in r[2]), sum(1 for r in rows if 'undecided' in r[2]), sum(1 for r in rows if 'MISSED' in r[2])))


if __name__ == '__main__':
    cmd = sys.argv[1]
    if cmd == 'install':
        install(sys.argv[2], sys.argv[3], sys.argv[4])
    elif cmd == 'record':
        record(sys.argv[2:])
    elif cmd == 'table':
        table()
