#!/usr/bin/env python3
"""records the parameter names of every contracted function of the CURRENT /repo tree in contracts/params.json
(the names the contract texts were written against); run after editing contracts, with /repo at the reference commit"""
import json, os, sys
sys.path.insert(0, '/verif/lib'); sys.path.insert(0, '/verif/contracts')
import inject
inject.PARAMS_SNAPSHOT = {}
import checker
asm = checker.assemble_crate(['std'])
out = {}
for rel, fc in asm.files.items():
    out.update(getattr(fc, 'actual_params', {}))
json.dump(out, open('/verif/contracts/params.json', 'w'), indent=0, sort_keys=True)
print(len(out), 'functions')
