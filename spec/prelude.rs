// Specification vocabulary shared by all contracts (module `crate::vspec` of the generated crate).
// Written from the property statements / ITU-R M.1371-5, not from the code.

use nom::{at, fld, suf, find, tagbyte, is_error, hex_len, hex_val, dig_len, Input, IResult};
use vstd::std_specs::ops::*;
use vstd::float::*;
use vstd::std_specs::cmp::*;

// ------------------------------------------------------------------------------------------
// trusted language facts about IEEE-754 binary32 in Rust (listed in every evidence file):
// `*` and `/` on f32 never panic, and are deterministic functions of their operands.
pub mod f32ax {
    use vstd::prelude::*;
    use vstd::std_specs::ops::*;
    pub broadcast axiom fn f32_div_total(a: f32, b: f32) ensures #[trigger] a.div_req(b);
    pub broadcast axiom fn f32_mul_total(a: f32, b: f32) ensures #[trigger] a.mul_req(b);
    pub axiom fn f32_det() ensures <f32 as DivSpec<f32>>::obeys_div_spec(), <f32 as MulSpec<f32>>::obeys_mul_spec();
}

// std item without a vstd specification
pub assume_specification<T: Ord>[ core::cmp::min ](a: T, b: T) -> (r: T)
    ensures r == a || r == b,
        T::obeys_cmp_spec() ==> r == (if a.cmp_spec(&b) == core::cmp::Ordering::Greater { b } else { a }),
;

pub assume_specification<'a, T: Clone>[ <Vec<T> as core::convert::From<&'a [T]>>::from ](s: &[T]) -> (r: Vec<T>)
    ensures r@.len() == s@.len(), forall|i: int| 0 <= i < s@.len() ==> cloned::<T>(#[trigger] s@[i], r@[i]), vstd::std_specs::vec::vec_clone_trigger(r, r),
;

// std items a maintainer is likely to reach for in this code base (kept so that such an edit stays decidable)
pub assume_specification<T>[ core::mem::replace::<T> ](dest: &mut T, src: T) -> (r: T)
    ensures *final(dest) == src, r == *old(dest),
;
pub assume_specification<T: core::default::Default>[ core::mem::take::<T> ](dest: &mut T) -> (r: T)
    ensures r == *old(dest), call_ensures(T::default, (), *final(dest)),
;

// ------------------------------------------------------------------------------------------
// results with the remaining input stripped

pub open spec fn strip<I, O, E>(r: core::result::Result<(I, O), E>) -> core::result::Result<O, ()> {
    match r { Ok((_, m)) => Ok(m), Err(_) => Err(()) }
}
pub open spec fn strip1<O, E>(r: core::result::Result<O, E>) -> core::result::Result<O, ()> {
    match r { Ok(m) => Ok(m), Err(_) => Err(()) }
}

/// machine-size assumption on every buffer handed to the public entry points
pub open spec fn small(n: int) -> bool { n < 0x100_0000_0000 }
/// a single input line / payload handed to a public entry point: shorter than 2^28 bytes
pub open spec fn line_small(n: int) -> bool { n < 0x1000_0000 }

/// a well-formed bit cursor (what nom's bit parsers hand on)
pub open spec fn cur_ok(c: (&[u8], usize)) -> bool { c.1 < 8 && (c.1 == 0 || c.0@.len() > 0) && small(c.0@.len() as int) }

/// two's-complement value of the w-bit field v
pub open spec fn sext(v: int, w: int) -> int { if v >= nom::bits::complete::pow2(w - 1) { v - nom::bits::complete::pow2(w) } else { v } }

// ------------------------------------------------------------------------------------------
// C10 / C11: scalings and 'not available' codes.  Relations, because Verus models int->f32
// conversion as a relation (float_cast_spec); `div_spec` / `mul_spec` are IEEE-754 `/` and `*`.

/// v is the single-precision quotient  (x as f32) / d
pub open spec fn f32_quot_i32(x: i32, d: f32, v: f32) -> bool { exists|c: f32| #[trigger] float_cast_spec::<i32, f32>(x, c) && v == c.div_spec(d) }
pub open spec fn f32_quot_u16(x: u16, d: f32, v: f32) -> bool { exists|c: f32| #[trigger] float_cast_spec::<u16, f32>(x, c) && v == c.div_spec(d) }
pub open spec fn f32_quot_u8(x: u8, d: f32, v: f32) -> bool { exists|c: f32| #[trigger] float_cast_spec::<u8, f32>(x, c) && v == c.div_spec(d) }
pub open spec fn f32_of_u16(x: u16, v: f32) -> bool { float_cast_spec::<u16, f32>(x, v) }

/// longitude, 1/10000 minute: 181 degrees (108 600 000) is 'not available'
pub open spec fn lon_rel(x: i32, v: Option<f32>) -> bool { if x == 108_600_000 { v is None } else { v is Some && f32_quot_i32(x, 600000.0f32, v->Some_0) } }
/// latitude, 1/10000 minute: 91 degrees (54 600 000)
pub open spec fn lat_rel(x: i32, v: Option<f32>) -> bool { if x == 54_600_000 { v is None } else { v is Some && f32_quot_i32(x, 600000.0f32, v->Some_0) } }
/// longitude, 1/10 minute (types 17, 27): 181 degrees is 108 600
pub open spec fn lon10_rel(x: i32, v: Option<f32>) -> bool { if x == 108_600 { v is None } else { v is Some && f32_quot_i32(x, 600.0f32, v->Some_0) } }
pub open spec fn lat10_rel(x: i32, v: Option<f32>) -> bool { if x == 54_600 { v is None } else { v is Some && f32_quot_i32(x, 600.0f32, v->Some_0) } }
/// speed over ground, 1/10 knot, 1023 'not available'
pub open spec fn sog_rel(x: u16, v: Option<f32>) -> bool { if x == 1023 { v is None } else { v is Some && f32_quot_u16(x, 10.0f32, v->Some_0) } }
/// course over ground, 1/10 degree, 3600 'not available'
pub open spec fn cog_rel(x: u16, v: Option<f32>) -> bool { if x == 3600 { v is None } else { v is Some && f32_quot_u16(x, 10.0f32, v->Some_0) } }
/// SAR aircraft speed, knots undivided, 1023 'not available'
/// (1022 means '1022 knots or higher' and is reported as exactly that)
pub open spec fn sog_sar_rel(x: u16, v: Option<f32>) -> bool { if x == 1023 { v is None } else if x == 1022 { v == Some(1022.0f32) } else { v is Some && f32_of_u16(x, v->Some_0) } }
/// type 27 speed (knots, 63 n/a) and course (degrees, 511 n/a), undivided
pub open spec fn sog27_rel(x: u16, v: Option<f32>) -> bool { if x == 63 { v is None } else { v is Some && f32_of_u16(x, v->Some_0) } }
pub open spec fn cog27_rel(x: u16, v: Option<f32>) -> bool { if x == 511 { v is None } else { v is Some && f32_of_u16(x, v->Some_0) } }
/// draught, 1/10 metre
pub open spec fn draught_rel(x: u8, v: f32) -> bool { f32_quot_u8(x, 10.0f32, v) }

/// sentinel-coded unsigned fields
pub open spec fn opt_ne_u16(x: int, sentinel: int) -> Option<u16> { if x == sentinel { None } else { Some(x as u16) } }
pub open spec fn opt_ne_u8(x: int, sentinel: int) -> Option<u8> { if x == sentinel { None } else { Some(x as u8) } }

// ------------------------------------------------------------------------------------------
// generic shape of a bit-cursor leaf parser: consumes exactly w bits or fails recoverably

pub open spec fn leaf_ok<T>(data: (&[u8], usize), w: int, r: IResult<(&[u8], usize), T>) -> bool {
    &&& (r is Err ==> r->Err_0 is Error)
    &&& (r is Ok ==> cur_ok(r->Ok_0.0) && r->Ok_0.0.0@.len() <= data.0@.len())
    &&& forall|orig: Seq<u8>, p: int| #[trigger] at(orig, data, p) ==>
        if 8 * orig.len() - p >= w { r is Ok && at(orig, r->Ok_0.0, p + w) } else { r is Err }
}

// ------------------------------------------------------------------------------------------
// what `at` means, for the places that touch the bytes behind a cursor

pub proof fn at_unfold(c: (&[u8], usize))
    ensures forall|orig: Seq<u8>, p: int| #[trigger] at(orig, c, p) ==>
        0 <= p <= 8 * orig.len() && c.0@ == orig.subrange(p / 8, orig.len() as int) && c.1 == p % 8,
{
    reveal(at);
}

/// a well-formed cursor stands at bit c.1 of its own buffer (start of every position chain)
pub proof fn at_self(c: (&[u8], usize))
    requires c.1 < 8, c.1 == 0 || c.0@.len() > 0,
    ensures at(c.0@, c, c.1 as int),
{
    reveal(at);
    assert(c.0@ =~= c.0@.subrange(0, c.0@.len() as int));
}

pub proof fn suf_unfold(c: &[u8])
    ensures forall|orig: Seq<u8>, p: int| #[trigger] suf(orig, c, p) ==> 0 <= p <= orig.len() && c@ == orig.subrange(p, orig.len() as int),
{
    reveal(suf);
}
/// a slice is its own suffix at 0 (start of every byte-position chain)
pub proof fn suf_self(c: &[u8])
    ensures suf(c@, c, 0),
{
    reveal(suf);
    assert(c@ =~= c@.subrange(0, c@.len() as int));
}
