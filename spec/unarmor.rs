// ---------------------------------------------------------------------------------------------
// C03: bit-level specification of unarmoring and the lemmas of its loop proof.

/// bit k (0 = most significant) of a byte / of a 6-bit value
pub open spec fn bit8(b: u8, k: int) -> bool { (b >> ((7 - k) as u8)) & 1 == 1 }
pub open spec fn bit6(v: u8, k: int) -> bool { (v >> ((5 - k) as u8)) & 1 == 1 }
/// 6-bit value of an armoring character (0 for a byte outside the alphabet)
pub open spec fn sv(c: u8) -> u8 { if 48 <= c <= 87 { (c - 48) as u8 } else if 96 <= c <= 119 { (c - 56) as u8 } else { 0 } }
/// expected output bit j when the first `lim` bits of the concatenated 6-bit values are kept and everything after is zero
pub open spec fn ebit(data: Seq<u8>, lim: int, j: int) -> bool { 0 <= j < lim && j / 6 < data.len() && bit6(sv(data[j / 6]), j % 6) }
/// `out` is exactly that bit stream, most significant bit first
pub open spec fn packed(out: Seq<u8>, data: Seq<u8>, lim: int) -> bool {
    forall|q: int, k: int| 0 <= q < out.len() && 0 <= k < 8 ==> #[trigger] bit8(out[q], k) == ebit(data, lim, 8 * q + k)
}

pub proof fn bv_or_first(b: u8, v: u8, off: u8, k: u8)
    requires v < 64, off == 0 || off == 2 || off == 4 || off == 6, k < 8, b & (0xffu8 >> off) == 0,
    ensures
        k < off ==> (((b | ((v << 2) >> off)) >> ((7 - k) as u8)) & 1 == (b >> ((7 - k) as u8)) & 1),
        off <= k && k < off + 6 ==> (((b | ((v << 2) >> off)) >> ((7 - k) as u8)) & 1 == (v >> ((5 - (k - off)) as u8)) & 1),
        k >= off + 6 ==> (((b | ((v << 2) >> off)) >> ((7 - k) as u8)) & 1 == 0),
{
    assert(k < off ==> (((b | ((v << 2) >> off)) >> ((7 - k) as u8)) & 1 == (b >> ((7 - k) as u8)) & 1)) by (bit_vector)
        requires v < 64, off == 0 || off == 2 || off == 4 || off == 6, k < 8, b & (0xffu8 >> off) == 0;
    assert(off <= k && k < off + 6 ==> (((b | ((v << 2) >> off)) >> ((7 - k) as u8)) & 1 == (v >> ((5 - (k - off)) as u8)) & 1)) by (bit_vector)
        requires v < 64, off == 0 || off == 2 || off == 4 || off == 6, k < 8, b & (0xffu8 >> off) == 0;
    assert(k >= off + 6 ==> (((b | ((v << 2) >> off)) >> ((7 - k) as u8)) & 1 == 0)) by (bit_vector)
        requires v < 64, off == 0 || off == 2 || off == 4 || off == 6, k < 8, b & (0xffu8 >> off) == 0;
}
pub proof fn bv_or_second(v: u8, off: u8, k: u8)
    requires v < 64, off == 4 || off == 6, k < 8,
    ensures
        k + 2 < off ==> (((0u8 | ((v << 2) << ((8 - off) as u8))) >> ((7 - k) as u8)) & 1 == (v >> ((5 - (8 - off + k)) as u8)) & 1),
        k + 2 >= off ==> (((0u8 | ((v << 2) << ((8 - off) as u8))) >> ((7 - k) as u8)) & 1 == 0),
{
    assert(k + 2 < off ==> (((0u8 | ((v << 2) << ((8 - off) as u8))) >> ((7 - k) as u8)) & 1 == (v >> ((5 - (8 - off + k)) as u8)) & 1)) by (bit_vector)
        requires v < 64, off == 4 || off == 6, k < 8;
    assert(k + 2 >= off ==> (((0u8 | ((v << 2) << ((8 - off) as u8))) >> ((7 - k) as u8)) & 1 == 0)) by (bit_vector)
        requires v < 64, off == 4 || off == 6, k < 8;
}
pub proof fn bv_mask(b: u8, s: u8, k: u8)
    requires s <= 7, k < 8,
    ensures ((b & (0xffu8 << s)) >> ((7 - k) as u8)) & 1 == (if k + s < 8 { (b >> ((7 - k) as u8)) & 1 } else { 0 }),
{
    assert(((b & (0xffu8 << s)) >> ((7 - k) as u8)) & 1 == (if k + s < 8 { (b >> ((7 - k) as u8)) & 1 } else { 0 })) by (bit_vector)
        requires s <= 7, k < 8;
}
/// a byte whose bits off..7 are all zero
pub proof fn bv_low_zero(b: u8, off: u8)
    requires off == 0 || off == 2 || off == 4 || off == 6,
        off <= 0 ==> (b >> 7u8) & 1 == 0, off <= 1 ==> (b >> 6u8) & 1 == 0, off <= 2 ==> (b >> 5u8) & 1 == 0, off <= 3 ==> (b >> 4u8) & 1 == 0,
        off <= 4 ==> (b >> 3u8) & 1 == 0, off <= 5 ==> (b >> 2u8) & 1 == 0, off <= 6 ==> (b >> 1u8) & 1 == 0, (b >> 0u8) & 1 == 0,
    ensures b & (0xffu8 >> off) == 0,
{
    assert(b & (0xffu8 >> off) == 0) by (bit_vector)
        requires off == 0 || off == 2 || off == 4 || off == 6,
            off <= 0 ==> (b >> 7u8) & 1 == 0, off <= 1 ==> (b >> 6u8) & 1 == 0, off <= 2 ==> (b >> 5u8) & 1 == 0, off <= 3 ==> (b >> 4u8) & 1 == 0,
            off <= 4 ==> (b >> 3u8) & 1 == 0, off <= 5 ==> (b >> 2u8) & 1 == 0, off <= 6 ==> (b >> 1u8) & 1 == 0, (b >> 0u8) & 1 == 0;
}
pub proof fn bv_zero(k: u8)
    requires k < 8,
    ensures (0u8 >> ((7 - k) as u8)) & 1 == 0,
{
    assert((0u8 >> ((7 - k) as u8)) & 1 == 0) by (bit_vector) requires k < 8;
}
pub proof fn bv_all_zero(b: u8)
    requires b & (0xffu8 >> 0u8) == 0,
    ensures b == 0,
{
    assert(b == 0) by (bit_vector) requires b & (0xffu8 >> 0u8) == 0;
}

/// one iteration of the packing loop: character i (6-bit value v) is OR-ed in at bit 6i
pub proof fn lemma_unarmor_step(out0: Seq<u8>, out1: Seq<u8>, data: Seq<u8>, i: int, v: u8)
    requires
        0 <= i < data.len(), v == sv(data[i]), v < 64,
        out0.len() == out1.len(), 8 * out0.len() >= 6 * data.len(),
        packed(out0, data, 6 * i),
        ({ let ob = 6 * i / 8; let off = 6 * i % 8;
           &&& ob < out0.len()
           &&& out1[ob] == out0[ob] | ((v << 2) >> (off as u8))
           &&& (off > 2 ==> ob + 1 < out0.len() && out1[ob + 1] == out0[ob + 1] | ((v << 2) << ((8 - off) as u8)))
           &&& forall|q: int| 0 <= q < out0.len() && q != ob && !(off > 2 && q == ob + 1) ==> out1[q] == out0[q] }),
    ensures packed(out1, data, 6 * (i + 1)),
{
    let ob = 6 * i / 8;
    let off = 6 * i % 8;
    assert(off == 0 || off == 2 || off == 4 || off == 6);
    assert forall|q: int, k: int| 0 <= q < out1.len() && 0 <= k < 8 implies #[trigger] bit8(out1[q], k) == ebit(data, 6 * (i + 1), 8 * q + k) by {
        let j = 8 * q + k;
        assert(bit8(out0[q], k) == ebit(data, 6 * i, j));
        if q == ob {
            let b = out0[ob];
            // bits off..7 of the byte are still zero (they lie at or beyond bit 6i)
            assert forall|kk: int| off <= kk < 8 implies !bit8(b, kk) by {
                assert(bit8(out0[ob], kk) == ebit(data, 6 * i, 8 * ob + kk));
            }
            assert(!bit8(b, 7));
            assert(off <= 6 ==> !bit8(b, 6));
            assert(off <= 5 ==> !bit8(b, 5));
            assert(off <= 4 ==> !bit8(b, 4));
            assert(off <= 3 ==> !bit8(b, 3));
            assert(off <= 2 ==> !bit8(b, 2));
            assert(off <= 1 ==> !bit8(b, 1));
            assert(off <= 0 ==> !bit8(b, 0));
            bv_bits_01(b);
            bv_low_zero(b, off as u8);
            bv_or_first(b, v, off as u8, k as u8);
            bv_bits_01(out1[ob]);
            bv_bits_01(v);
            if k < off {
                assert(j < 6 * i);
            } else if k < off + 6 {
                assert(j == 6 * i + (k - off));
                assert(j / 6 == i && j % 6 == k - off);
            } else {
                assert(j >= 6 * (i + 1));
            }
        } else if off > 2 && q == ob + 1 {
            let b = out0[ob + 1];
            assert forall|kk: int| 0 <= kk < 8 implies !bit8(b, kk) by {
                assert(bit8(out0[ob + 1], kk) == ebit(data, 6 * i, 8 * (ob + 1) + kk));
            }
            assert(!bit8(b, 0) && !bit8(b, 1) && !bit8(b, 2) && !bit8(b, 3) && !bit8(b, 4) && !bit8(b, 5) && !bit8(b, 6) && !bit8(b, 7));
            bv_bits_01(b);
            bv_low_zero(b, 0u8);
            bv_all_zero(b);
            bv_or_second(v, off as u8, k as u8);
            bv_bits_01(out1[ob + 1]);
            bv_bits_01(v);
            if k + 2 < off {
                assert(j == 6 * i + (8 - off) + k);
                assert(j / 6 == i && j % 6 == 8 - off + k);
            } else {
                assert(j >= 6 * (i + 1));
            }
        } else {
            assert(out1[q] == out0[q]);
            if q < ob {
                assert(j < 6 * i);
            } else {
                assert(j >= 6 * (i + 1));
            }
        }
    }
}

/// `(x >> s) & 1` is 0 or 1, so `== 1` and `!= 0` coincide (lets the solver move between the boolean and the numeric reading)
pub proof fn bv_bits_01(b: u8)
    ensures forall|s: u8| s < 8 ==> (#[trigger] (b >> s)) & 1 == 0 || (b >> s) & 1 == 1,
{
    assert forall|s: u8| s < 8 implies (#[trigger] (b >> s)) & 1 == 0 || (b >> s) & 1 == 1 by {
        assert((b >> s) & 1 == 0 || (b >> s) & 1 == 1) by (bit_vector);
    }
}

pub proof fn bv_and_zero(b: u8, k: u8)
    requires k < 8,
    ensures ((b & 0u8) >> ((7 - k) as u8)) & 1 == 0,
{
    assert(((b & 0u8) >> ((7 - k) as u8)) & 1 == 0) by (bit_vector) requires k < 8;
}

/// the fill-bit masking after the loop: the last `fill` of the 6n payload bits are cleared (they may straddle the last two bytes)
pub proof fn lemma_unarmor_mask(out0: Seq<u8>, out1: Seq<u8>, data: Seq<u8>, fill: int)
    requires
        data.len() >= 1, 1 <= fill <= 5,
        out0.len() == out1.len(), out0.len() == (6 * (data.len() as int) + 7) / 8,
        packed(out0, data, 6 * (data.len() as int)),
        ({ let n6 = 6 * (data.len() as int); let bifb = if n6 % 8 == 0 { 8int } else { n6 % 8 }; let fi = out0.len() - 1;
           let shift = (8 - bifb) + if fill <= bifb { fill } else { bifb };
           &&& (shift <= 7 ==> out1[fi] == out0[fi] & (0xffu8 << (shift as u8)))
           &&& (shift == 8 ==> out1[fi] == out0[fi] & 0u8)
           &&& (fill > bifb ==> fi >= 1 && out1[fi - 1] == out0[fi - 1] & (0xffu8 << ((fill - bifb) as u8)))
           &&& forall|q: int| 0 <= q < out0.len() && q != fi && !(fill > bifb && q == fi - 1) ==> out1[q] == out0[q] }),
    ensures packed(out1, data, 6 * (data.len() as int) - fill),
{
    let n6 = 6 * (data.len() as int);
    let bifb = if n6 % 8 == 0 { 8int } else { n6 % 8 };
    let fi = out0.len() - 1;
    let shift = (8 - bifb) + if fill <= bifb { fill } else { bifb };
    assert(bifb == 8 || bifb == 6 || bifb == 4 || bifb == 2);
    assert(8 * fi + bifb == n6);
    assert(0 <= shift <= 8);
    assert forall|q: int, k: int| 0 <= q < out1.len() && 0 <= k < 8 implies #[trigger] bit8(out1[q], k) == ebit(data, n6 - fill, 8 * q + k) by {
        let j = 8 * q + k;
        assert(bit8(out0[q], k) == ebit(data, n6, j));
        if q == fi {
            bv_bits_01(out0[fi]);
            bv_bits_01(out1[fi]);
            if shift <= 7 {
                bv_mask(out0[fi], shift as u8, k as u8);
            } else {
                bv_and_zero(out0[fi], k as u8);
            }
        } else if fill > bifb && q == fi - 1 {
            bv_bits_01(out0[fi - 1]);
            bv_bits_01(out1[fi - 1]);
            bv_mask(out0[fi - 1], (fill - bifb) as u8, k as u8);
        } else {
            assert(out1[q] == out0[q]);
            assert(j < n6 - fill);
        }
    }
}

/// a zero-filled buffer carries no payload bit yet
pub proof fn lemma_zero_packed(out: Seq<u8>, data: Seq<u8>)
    requires forall|q: int| 0 <= q < out.len() ==> out[q] == 0,
    ensures packed(out, data, 0),
{
    assert forall|q: int, k: int| 0 <= q < out.len() && 0 <= k < 8 implies #[trigger] bit8(out[q], k) == ebit(data, 0, 8 * q + k) by {
        bv_zero(k as u8);
    }
}

// ---- the two lemmas in implication form: this is what the injected proof hints call.  A hint with a precondition would turn a
// ---- changed shift / mask into a "precondition of a hint not satisfied" (undecided); in this form the loop invariant or the
// ---- postcondition of unarmor itself stops verifying, which is a refutation of C03.
pub open spec fn step_pre(out0: Seq<u8>, out1: Seq<u8>, data: Seq<u8>, i: int, v: u8) -> bool {
    &&& 0 <= i < data.len() && v == sv(data[i]) && v < 64
    &&& out0.len() == out1.len() && 8 * out0.len() >= 6 * data.len()
    &&& packed(out0, data, 6 * i)
    &&& ({ let ob = 6 * i / 8; let off = 6 * i % 8;
           &&& ob < out0.len()
           &&& out1[ob] == out0[ob] | ((v << 2) >> (off as u8))
           &&& (off > 2 ==> ob + 1 < out0.len() && out1[ob + 1] == out0[ob + 1] | ((v << 2) << ((8 - off) as u8)))
           &&& forall|q: int| 0 <= q < out0.len() && q != ob && !(off > 2 && q == ob + 1) ==> out1[q] == out0[q] })
}
pub proof fn lemma_unarmor_step_imp(out0: Seq<u8>, out1: Seq<u8>, data: Seq<u8>, i: int, v: u8)
    ensures step_pre(out0, out1, data, i, v) ==> packed(out1, data, 6 * (i + 1)),
{
    if step_pre(out0, out1, data, i, v) {
        lemma_unarmor_step(out0, out1, data, i, v);
    }
}
pub open spec fn mask_pre(out0: Seq<u8>, out1: Seq<u8>, data: Seq<u8>, fill: int) -> bool {
    &&& data.len() >= 1 && 1 <= fill <= 5
    &&& out0.len() == out1.len() && out0.len() == (6 * (data.len() as int) + 7) / 8
    &&& packed(out0, data, 6 * (data.len() as int))
    &&& ({ let n6 = 6 * (data.len() as int); let bifb = if n6 % 8 == 0 { 8int } else { n6 % 8 }; let fi = out0.len() - 1;
           let shift = (8 - bifb) + if fill <= bifb { fill } else { bifb };
           &&& (shift <= 7 ==> out1[fi] == out0[fi] & (0xffu8 << (shift as u8)))
           &&& (shift == 8 ==> out1[fi] == out0[fi] & 0u8)
           &&& (fill > bifb ==> fi >= 1 && out1[fi - 1] == out0[fi - 1] & (0xffu8 << ((fill - bifb) as u8)))
           &&& forall|q: int| 0 <= q < out0.len() && q != fi && !(fill > bifb && q == fi - 1) ==> out1[q] == out0[q] })
}
pub proof fn lemma_unarmor_mask_imp(out0: Seq<u8>, out1: Seq<u8>, data: Seq<u8>, fill: int)
    ensures mask_pre(out0, out1, data, fill) ==> packed(out1, data, 6 * (data.len() as int) - fill),
{
    if mask_pre(out0, out1, data, fill) {
        lemma_unarmor_mask(out0, out1, data, fill);
    }
}
