// ---------------------------------------------------------------------------------------------
// Sentence layer: grammar of accepted lines (C08), transmitted fields (C07), checksum (C02),
// sentence-level type (C19), reassembly state machine (C05 / C06 / C17).
// Written from the property statements.

pub mod sax {
    use vstd::prelude::*;
    use nom::{find, tagbyte, hex_len, hex_val, dig_len, fld};
    use super::dig_val;
    // single-byte tag literals
    pub broadcast axiom fn tag_comma() ensures #[trigger] tagbyte(",") == 44u8;
    pub broadcast axiom fn tag_bs() ensures #[trigger] tagbyte("\\") == 92u8;
    pub broadcast axiom fn tag_bang() ensures #[trigger] tagbyte("!") == 33u8;
    pub broadcast axiom fn tag_dollar() ensures #[trigger] tagbyte("$") == 36u8;
    pub broadcast axiom fn tag_star() ensures #[trigger] tagbyte("*") == 42u8;
    // defining properties of the uninterpreted scanners (each is a K-checked property of an executable reference)
    pub broadcast axiom fn find_range(o: Seq<u8>, p: int, b: u8)
        ensures 0 <= p <= o.len() ==> p <= #[trigger] find(o, p, b) <= o.len() && (find(o, p, b) < o.len() ==> o[find(o, p, b)] == b);
    pub broadcast axiom fn find_shift(o: Seq<u8>, q: int, p: int, b: u8)
        ensures 0 <= q <= p <= o.len() ==> #[trigger] find(o.subrange(q, o.len() as int), p - q, b) == find(o, p, b) - q;
    pub broadcast axiom fn dig_len_range(o: Seq<u8>, p: int)
        ensures #[trigger] dig_len(o, p) >= 0, 0 <= p ==> p + dig_len(o, p) <= o.len() || dig_len(o, p) == 0;
    pub broadcast axiom fn dig_val_range(o: Seq<u8>, p: int) ensures #[trigger] dig_val(o, p) >= 0;
    pub broadcast axiom fn hex_range(o: Seq<u8>, p: int) ensures 0 <= #[trigger] hex_len(o, p) <= 8, hex_val(o, p) >= 0;
    /// the first six bits of a buffer are the top six bits of its first byte
    pub broadcast axiom fn fld_first6(s: Seq<u8>) ensures s.len() >= 1 ==> #[trigger] fld(s, 0, 6) == s[0] as int / 4;
}

/// decimal value of the digit run at o[p..] (leading zeros allowed; unbounded)
pub uninterp spec fn dig_val(o: Seq<u8>, p: int) -> int;
/// a decimal field that fits a u8
pub open spec fn dig_ok(o: Seq<u8>, p: int) -> bool { dig_len(o, p) >= 1 && dig_val(o, p) <= 255 }
pub open spec fn is_comma(o: Seq<u8>, p: int) -> bool { 0 <= p < o.len() && o[p] == 44u8 }

// ---- positions inside the sentence body that starts at byte p (right after '!' / '$') ----------
pub open spec fn g_p1(o: Seq<u8>, p: int) -> int { p + 6 + dig_len(o, p + 6) }                       // comma after the fragment count
pub open spec fn g_p2(o: Seq<u8>, p: int) -> int { g_p1(o, p) + 1 + dig_len(o, g_p1(o, p) + 1) }      // comma after the fragment number
pub open spec fn g_p3(o: Seq<u8>, p: int) -> int {                                                    // comma after the optional sequence id
    if dig_ok(o, g_p2(o, p) + 1) { g_p2(o, p) + 1 + dig_len(o, g_p2(o, p) + 1) } else { g_p2(o, p) + 1 }
}
pub open spec fn g_cend(o: Seq<u8>, p: int) -> int { find(o, g_p3(o, p) + 1, 44u8) }                  // comma after the channel field
pub open spec fn g_pend(o: Seq<u8>, p: int) -> int { find(o, g_cend(o, p) + 1, 44u8) }                // comma after the payload
pub open spec fn g_end(o: Seq<u8>, p: int) -> int { g_pend(o, p) + 1 + dig_len(o, g_pend(o, p) + 1) } // end of the fill count

/// C08: five address bytes, ',' count ',' number ',' [id] ',' channel ',' non-empty payload ',' fill < 6
pub open spec fn g_ok(o: Seq<u8>, p: int) -> bool {
    &&& 0 <= p && p + 5 <= o.len() && is_comma(o, p + 5)
    &&& dig_ok(o, p + 6) && is_comma(o, g_p1(o, p))
    &&& dig_ok(o, g_p1(o, p) + 1) && is_comma(o, g_p2(o, p))
    &&& is_comma(o, g_p3(o, p))
    &&& g_cend(o, p) < o.len()
    &&& g_pend(o, p) < o.len()
    &&& g_pend(o, p) > g_cend(o, p) + 1
    &&& dig_ok(o, g_pend(o, p) + 1) && dig_val(o, g_pend(o, p) + 1) < 6
}

// ---- C07 tables ---------------------------------------------------------------------------------
pub open spec fn b2(s: Seq<u8>, a: u8, b: u8) -> bool { s.len() == 2 && s[0] == a && s[1] == b }
pub open spec fn b3(s: Seq<u8>, a: u8, b: u8, c: u8) -> bool { s.len() == 3 && s[0] == a && s[1] == b && s[2] == c }

/// 6-bit value of an armoring character: '0'..'W' -> 0..39, '`'..'w' -> 40..63
pub open spec fn sixbit(c: u8) -> Option<int> {
    if 48 <= c <= 87 { Some(c - 48) } else if 96 <= c <= 119 { Some(c - 56) } else { None }
}

/// C02: XOR of all bytes
pub open spec fn xor_spec(s: Seq<u8>) -> u8
    decreases s.len()
{
    if s.len() == 0 { 0u8 } else { xor_spec(s.drop_last()) ^ s.last() }
}

// ---- C08 at line level: optional tag block, start delimiter, body, '*', hex checksum ------------
/// position of the start delimiter (after a terminated tag block, if the line starts with a backslash)
pub open spec fn n_d(o: Seq<u8>) -> int {
    if o.len() >= 1 && o[0] == 92u8 && find(o, 1, 92u8) < o.len() { find(o, 1, 92u8) + 1 } else { 0 }
}
pub open spec fn n_star(o: Seq<u8>) -> int { find(o, n_d(o) + 1, 42u8) }
pub open spec fn n_e(o: Seq<u8>) -> int { g_end(o, n_d(o) + 1) }
pub open spec fn n_ok(o: Seq<u8>) -> bool {
    &&& n_d(o) < o.len() && (o[n_d(o)] == 33u8 || o[n_d(o)] == 36u8)
    &&& n_star(o) < o.len()          // implied by the terminating star; explicit for the solver
    &&& g_ok(o, n_d(o) + 1)
    &&& n_e(o) < o.len() && o[n_e(o)] == 42u8
    &&& hex_len(o, n_e(o) + 1) >= 1 && hex_val(o, n_e(o) + 1) <= 0xff
}
/// the checksummed range: strictly between the start delimiter and the first following '*'
pub open spec fn n_raw(o: Seq<u8>) -> Seq<u8> { o.subrange(n_d(o) + 1, n_star(o)) }
pub open spec fn n_ck(o: Seq<u8>) -> int { hex_val(o, n_e(o) + 1) }

// ---- reassembly (C05 / C06 / C17): abstract parser state and one transition -------------------------
pub struct PState { pub id: Option<u8>, pub num: int, pub data: Seq<u8> }
